#define _GNU_SOURCE
#include <stddef.h>
#include <stdint.h>
#include <stdlib.h>
#include <sys/types.h>
#include <unistd.h>
#include <sys/syscall.h>
/* Deterministic getrandom(): answers from a splitmix64 stream seeded by VERIF_HASH_SEED.
   Without the variable the real system call is used. */
static uint64_t state; static int init;
static uint64_t next(void){ uint64_t z=(state+=0x9e3779b97f4a7c15ULL); z=(z^(z>>30))*0xbf58476d1ce4e5b9ULL; z=(z^(z>>27))*0x94d049bb133111ebULL; return z^(z>>31); }
ssize_t getrandom(void *buf, size_t len, unsigned int flags){
  const char *s=getenv("VERIF_HASH_SEED");
  if(!s) return syscall(SYS_getrandom, buf, len, flags);
  if(!init){ state=strtoull(s,0,10)*0x2545F4914F6CDD1DULL+1; init=1; }
  unsigned char *p=buf; size_t i=0; while(i<len){ uint64_t r=next(); for(int k=0;k<8&&i<len;k++,i++) p[i]=(r>>(8*k))&0xff; }
  return (ssize_t)len;
}
