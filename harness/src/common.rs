//! Shared plumbing: run context, evidence files, replay artefacts, known findings,
//! panic capture, exit codes.

use std::{
    cell::RefCell,
    collections::{BTreeMap, BTreeSet},
    panic::{self, AssertUnwindSafe},
    path::PathBuf,
    sync::{Mutex, Once},
    time::Instant,
};

use serde_json::{json, Map, Value};

pub const VERIF_ROOT: &str = "/verif";

#[derive(Clone, Copy, Debug, PartialEq, Eq)]
pub enum Tier {
    Quick,
    Thorough,
}

impl Tier {
    pub fn name(&self) -> &'static str {
        match self {
            Tier::Quick => "quick",
            Tier::Thorough => "thorough",
        }
    }
    pub fn pick<T>(&self, quick: T, thorough: T) -> T {
        match self {
            Tier::Quick => quick,
            Tier::Thorough => thorough,
        }
    }
}

pub struct Ctx {
    pub id: String,
    pub tier: Tier,
    pub seed: u64,
    pub start: Instant,
    pub replay: Option<PathBuf>,
    /// `key` of the replayed artefact: checks without a dedicated single-case replay re-run their
    /// exploration and report only failures with this key (generic replay)
    pub replay_key: Option<String>,
    state: Mutex<CtxState>,
}

#[derive(Default)]
struct CtxState {
    violations: u64,
    violation_keys: BTreeSet<String>,
    known_hits: BTreeMap<String, (u64, String)>,
    printed: u64,
}

/// A genuine defect recorded instead of repaired (or repaired and kept for the record).
#[derive(Clone, Debug, serde::Deserialize)]
pub struct Finding {
    pub property: String,
    pub key: String,
    pub what: String,
    pub status: String, // "known" | "fixed"
    #[serde(default)]
    pub commit: Option<String>,
    #[serde(default)]
    pub witness: Value,
}

pub fn load_findings() -> Vec<Finding> {
    let path = format!("{VERIF_ROOT}/known_findings.json");
    match std::fs::read_to_string(&path) {
        Ok(s) => {
            let v: Value = serde_json::from_str(&s).unwrap_or_else(|e| machinery(&format!("bad known_findings.json: {e}")));
            serde_json::from_value(v["findings"].clone()).unwrap_or_else(|e| machinery(&format!("bad known_findings.json: {e}")))
        }
        Err(_) => vec![],
    }
}

/// Machinery failure: never a verdict.
pub fn machinery(msg: &str) -> ! {
    eprintln!("MACHINERY-ERROR: {msg}");
    std::process::exit(2);
}

impl Ctx {
    pub fn new(id: &str, tier: Tier, replay: Option<PathBuf>) -> Ctx {
        let seed = std::env::var("VERIF_SEED").ok().and_then(|s| s.parse().ok()).unwrap_or(0);
        // RSS cap: an enumeration that outgrows memory is a machinery failure, never a verdict
        static WATCHDOG: Once = Once::new();
        WATCHDOG.call_once(|| {
            let cap_gb: f64 = std::env::var("VERIF_RSS_CAP_GB").ok().and_then(|s| s.parse().ok()).unwrap_or(20.0);
            std::thread::spawn(move || loop {
                std::thread::sleep(std::time::Duration::from_millis(500));
                if let Ok(statm) = std::fs::read_to_string("/proc/self/statm") {
                    let pages: f64 = statm.split_whitespace().nth(1).and_then(|x| x.parse().ok()).unwrap_or(0.0);
                    let gb = pages * 4096.0 / 1e9;
                    if gb > cap_gb {
                        eprintln!("MACHINERY-ERROR: resident set {gb:.1} GB exceeds the cap of {cap_gb} GB");
                        std::process::exit(2);
                    }
                }
            });
        });
        let replay_key = replay.as_ref().and_then(|p| std::fs::read_to_string(p).ok()).and_then(|t| serde_json::from_str::<Value>(&t).ok()).and_then(|v| v["key"].as_str().map(|s| s.to_string()));
        Ctx { id: id.to_string(), tier, seed, start: Instant::now(), replay, replay_key, state: Mutex::new(Default::default()) }
    }

    pub fn elapsed(&self) -> f64 {
        self.start.elapsed().as_secs_f64()
    }

    /// Wall-clock budget (seconds) for the enumeration part of this tier.
    pub fn budget_s(&self) -> f64 {
        let base = self.tier.pick(50.0, 600.0);
        std::env::var("VERIF_BUDGET_S").ok().and_then(|s| s.parse().ok()).unwrap_or(base)
    }

    /// Report a failing case. `key` identifies the failure class (used to match known findings
    /// and to avoid flooding the output); `replay` is the self-contained replay artefact.
    pub fn fail(&self, key: &str, what: &str, replay: Value) {
        if let Some(rk) = &self.replay_key {
            if rk != key {
                return; // generic replay: only the replayed failure class is of interest
            }
        }
        let findings = findings_for(&self.id);
        let mut st = self.state.lock().unwrap();
        if let Some(f) = findings.iter().find(|f| f.status == "known" && f.key == key) {
            let e = st.known_hits.entry(key.to_string()).or_insert((0, f.what.clone()));
            e.0 += 1;
            return;
        }
        st.violations += 1;
        let first_of_key = st.violation_keys.insert(key.to_string());
        if first_of_key || st.printed < 10 {
            st.printed += 1;
            let mut rep = replay;
            if let Value::Object(m) = &mut rep {
                m.insert("property".into(), json!(self.id));
                m.insert("key".into(), json!(key));
                m.insert("what".into(), json!(what));
            }
            let text = serde_json::to_string_pretty(&rep).unwrap();
            let h = fnv(text.as_bytes());
            let dir = format!("{VERIF_ROOT}/replays/{}", self.id);
            std::fs::create_dir_all(&dir).ok();
            let path = format!("{dir}/{h:016x}.json");
            std::fs::write(&path, text).ok();
            println!("VIOLATION property={} replay={}", self.id, path);
            println!("  key={key} :: {what}");
        }
    }

    pub fn violations(&self) -> u64 {
        self.state.lock().unwrap().violations
    }

    pub fn known_hits(&self) -> BTreeMap<String, (u64, String)> {
        self.state.lock().unwrap().known_hits.clone()
    }

    /// Write the evidence file, print KNOWN-FINDING lines and exit with the verdict code.
    pub fn finish(&self, level: &str, mut coverage: Map<String, Value>, assumptions: Vec<String>) -> ! {
        let st = self.state.lock().unwrap();
        for (key, (count, what)) in &st.known_hits {
            println!("KNOWN-FINDING: property={} {} [key={} cases={}]", self.id, what, key, count);
        }
        // A known finding that no longer reproduces is worth a note (not a failure).
        for f in findings_for(&self.id) {
            if f.status == "known" && !st.known_hits.contains_key(&f.key) {
                println!("note: known finding {} did not reproduce in this run (tier {})", f.key, self.tier.name());
            }
        }
        // thorough tier: ./check ran the complete quick tier first; keep what it covered
        if let Some(q) = std::env::var("VERIF_QUICK_PASS").ok().and_then(|p| std::fs::read_to_string(p).ok()).and_then(|t| serde_json::from_str::<Value>(&t).ok()) {
            let qc = &q["coverage"];
            let mut m = Map::new();
            for k in ["evaluations", "distinct_nontrivial", "states", "transitions", "traces_validated_against_impl", "exhaustive", "violation_keys", "known_finding_cases"] {
                if !qc[k].is_null() {
                    m.insert(k.into(), qc[k].clone());
                }
            }
            m.insert("wall_s".into(), q["wall_s"].clone());
            m.insert("violations".into(), q["violations"].clone());
            coverage.insert("preceding_quick_tier_pass".into(), Value::Object(m));
        }
        coverage.insert("known_finding_cases".into(), json!(st.known_hits.iter().map(|(k, v)| (k.clone(), v.0)).collect::<BTreeMap<_, _>>()));
        coverage.insert("violation_keys".into(), json!(st.violation_keys));
        let ev = json!({
            "property_id": self.id,
            "tier": self.tier.name(),
            "seed": self.seed,
            "level": level,
            "coverage": Value::Object(coverage),
            "assumptions": assumptions,
            "wall_s": (self.elapsed() * 1000.0).round() / 1000.0,
            "violations": st.violations,
        });
        if self.replay.is_none() {
            let dir = format!("{VERIF_ROOT}/evidence");
            std::fs::create_dir_all(&dir).ok();
            let path = std::env::var("VERIF_EVIDENCE_PATH").unwrap_or_else(|_| format!("{dir}/{}.json", self.id));
            if let Err(e) = std::fs::write(&path, serde_json::to_string_pretty(&ev).unwrap() + "\n") {
                machinery(&format!("cannot write evidence {path}: {e}"));
            }
        }
        let v = st.violations;
        if let Some(rk) = &self.replay_key {
            let known = st.known_hits.contains_key(rk);
            println!("REPLAY {}: key={} {}", self.id, rk, if v > 0 { "reproduced (violation)" } else if known { "reproduced (listed as a known finding)" } else { "not reproduced" });
        }
        println!(
            "{} {} tier={} violations={} known_finding_keys={} wall={:.1}s",
            if v == 0 { "PASS" } else { "FAIL" },
            self.id,
            self.tier.name(),
            v,
            st.known_hits.len(),
            self.elapsed()
        );
        std::process::exit(if v == 0 { 0 } else { 1 });
    }
}

fn findings_for(id: &str) -> Vec<Finding> {
    static ALL: std::sync::OnceLock<Vec<Finding>> = std::sync::OnceLock::new();
    ALL.get_or_init(load_findings).iter().filter(|f| f.property == id).cloned().collect()
}

pub fn fnv(bytes: &[u8]) -> u64 {
    let mut h: u64 = 0xcbf29ce484222325;
    for b in bytes {
        h ^= *b as u64;
        h = h.wrapping_mul(0x100000001b3);
    }
    h
}

// ---------------------------------------------------------------------------------------------
// Panic capture

#[derive(Clone, Debug, PartialEq, Eq)]
pub struct PanicRec {
    pub message: String,
    pub file: String,
    pub line: u32,
}

impl PanicRec {
    /// Stable identity of a panic site: file + message prefix with digits and quoted/variable
    /// payloads removed (line numbers are deliberately not part of the key).
    pub fn key(&self) -> String {
        let file = self.file.rsplit("trustfall").next().unwrap_or(&self.file).trim_start_matches('/').to_string();
        let mut msg: String = self.message.chars().take(70).collect();
        msg = msg.chars().map(|c| if c.is_ascii_digit() { '#' } else { c }).collect();
        format!("panic@{}:{}", file, msg.split('\n').next().unwrap_or(""))
    }
    pub fn in_engine(&self) -> bool {
        !self.file.contains("/verif/")
    }
    pub fn to_json(&self) -> Value {
        json!({"message": self.message, "file": self.file, "line": self.line})
    }
}

thread_local! {
    static LAST_PANIC: RefCell<Option<PanicRec>> = const { RefCell::new(None) };
    static CAPTURING: RefCell<u32> = const { RefCell::new(0) };
}

static HOOK: Once = Once::new();

pub fn install_panic_hook() {
    HOOK.call_once(|| {
        let default = panic::take_hook();
        panic::set_hook(Box::new(move |info| {
            let capturing = CAPTURING.with(|c| *c.borrow() > 0);
            let message = if let Some(s) = info.payload().downcast_ref::<&str>() {
                s.to_string()
            } else if let Some(s) = info.payload().downcast_ref::<String>() {
                s.clone()
            } else {
                "<non-string panic payload>".to_string()
            };
            let (file, line) = info.location().map(|l| (l.file().to_string(), l.line())).unwrap_or_default();
            if capturing {
                LAST_PANIC.with(|p| *p.borrow_mut() = Some(PanicRec { message, file, line }));
            } else {
                default(info);
            }
        }));
    });
}

/// Run `f`, turning a panic into a `PanicRec` (message + location), silently.
pub fn catch<T>(f: impl FnOnce() -> T) -> Result<T, PanicRec> {
    install_panic_hook();
    CAPTURING.with(|c| *c.borrow_mut() += 1);
    let r = panic::catch_unwind(AssertUnwindSafe(f));
    CAPTURING.with(|c| *c.borrow_mut() -= 1);
    match r {
        Ok(v) => Ok(v),
        Err(_) => Err(LAST_PANIC.with(|p| p.borrow_mut().take()).unwrap_or(PanicRec {
            message: "<panic without record>".into(),
            file: String::new(),
            line: 0,
        })),
    }
}

// ---------------------------------------------------------------------------------------------
// Small helpers

pub fn cov() -> Map<String, Value> {
    Map::new()
}

/// Keep at most `n` samples.
pub struct Samples {
    n: usize,
    pub items: Vec<Value>,
}
impl Samples {
    pub fn new(n: usize) -> Self {
        Samples { n, items: vec![] }
    }
    pub fn offer(&mut self, v: impl FnOnce() -> Value) {
        if self.items.len() < self.n {
            self.items.push(v());
        }
    }
}

pub fn threads() -> usize {
    std::env::var("VERIF_THREADS").ok().and_then(|s| s.parse().ok()).unwrap_or_else(|| std::thread::available_parallelism().map(|n| n.get()).unwrap_or(4))
}
