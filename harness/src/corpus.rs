//! Shared driver: enumerate the query space (PSE), compile each query with the real frontend,
//! and hand every (query, dataset, argument map) case to a property-specific oracle, in parallel.

use std::{
    collections::{BTreeMap, BTreeSet, HashSet},
    sync::{
        atomic::{AtomicBool, AtomicU64, Ordering},
        Arc, Mutex,
    },
};

use rayon::prelude::*;
use serde_json::{json, Value};
use trustfall_core::{ir::IndexedQuery, schema::Schema};

use crate::{
    common::{Ctx, PanicRec},
    dataset::{self, Dataset, World},
    engine::{self, Args, Compiled},
    qast::{self, Query},
    qgen::{self, GenCfg},
    reference,
    schema_model::TyRef,
};

pub struct Universe {
    pub world: Arc<World>,
    pub schema: Schema,
    pub datasets: Vec<Arc<Dataset>>,
}

impl Universe {
    pub fn sverif() -> Universe {
        let world = Arc::new(World::sverif());
        let schema = engine::parse_schema(dataset::SVERIF_TEXT);
        let datasets = dataset::curated().into_iter().map(Arc::new).collect();
        Universe { world, schema, datasets }
    }
}

#[derive(Clone)]
pub struct CorpusCfg {
    pub k: usize,
    pub gen: GenCfg,
    pub wide_args: bool,
    pub args_cap_per_var: usize,
    pub max_arg_maps: usize,
    /// keep only queries for which this returns true (after enumeration, before compilation)
    pub keep: Option<Arc<dyn Fn(&Query) -> bool + Send + Sync>>,
    pub seeds: Vec<Query>,
    /// when the AST-based variable typing is undefined for a query the frontend accepted, take the
    /// variable types from the IR instead (only for checks whose oracle does not depend on them)
    pub ir_var_types_fallback: bool,
    /// further finite spaces driven with the same callbacks after this one (label, configuration)
    pub extra: Vec<(&'static str, CorpusCfg)>,
    /// thorough tier: share of the remaining budget the streamed (deepest) layer may use
    pub stream_share: f64,
    /// restrict this space to the named datasets of the universe (None = all)
    pub only_datasets: Option<Vec<&'static str>>,
}

impl CorpusCfg {
    pub fn new(k: usize) -> Self {
        CorpusCfg { k, gen: GenCfg::default(), wide_args: false, args_cap_per_var: 2, max_arg_maps: 8, keep: None, seeds: qgen::skeletons(), ir_var_types_fallback: false, extra: vec![], only_datasets: None, stream_share: 0.5 }
    }
}

/// Two-edge structures (next / one; plain, @optional, @fold, @recurse; bare and with an output)
/// as seeds + up to `k` deviations restricted to `kinds`. Tag bookkeeping across scopes (sibling
/// folds importing the same tag, nested-then-sibling folds, tags from optional scopes) needs the
/// edges to exist first; from the plain skeleton these shapes are 4+ deviations away.
pub fn structures_cfg(uni: &Universe, k: usize, kinds: Vec<&'static str>, tag_menu_cap: usize) -> CorpusCfg {
    let sm = &uni.world.schema;
    let cfg_e = GenCfg { allow: Some(vec!["E"]), e_names: Some(vec!["next", "one"]), e_contents: vec![0, 1], recurse_depths: vec![2], naming_devs: false, ..Default::default() };
    let structures: Vec<Query> = qgen::enumerate(sm, &[qgen::skeleton()], 2, &cfg_e).into_iter().skip(2).flatten().collect();
    let mut cfg = CorpusCfg::new(k);
    cfg.seeds = structures;
    cfg.gen = GenCfg { allow: Some(kinds), naming_devs: false, tag_menu_cap, ..Default::default() };
    cfg
}

/// `structures_any_cfg` under another root field (e.g. `FirstA`, whose vertices have the concrete type A
/// while the neighbours reached over `next` / `one` are Items of either type).
pub fn structures_any_rooted_cfg(uni: &Universe, root: &str) -> CorpusCfg {
    let sm = &uni.world.schema;
    let mut skel = qgen::skeleton();
    skel.root = root.into();
    let cfg_e = GenCfg { allow: Some(vec!["E"]), e_names: Some(vec!["next", "one"]), e_contents: vec![0, 1], recurse_depths: vec![2], naming_devs: false, ..Default::default() };
    let mut cfg = structures_any_cfg(uni);
    cfg.seeds = qgen::enumerate(sm, &[skel], 2, &cfg_e).into_iter().skip(2).flatten().collect();
    cfg
}

/// One-edge structures + two tag deviations (property tags and fold-count tags / filters): two tags of
/// one vertex used by the same fold, two tag-dependent filters on one property, in either order.
pub fn one_edge_two_tags_cfg(uni: &Universe) -> CorpusCfg {
    let sm = &uni.world.schema;
    let cfg_e1 = GenCfg { allow: Some(vec!["E"]), e_names: Some(vec!["next", "one"]), e_contents: vec![0, 1], recurse_depths: vec![2], naming_devs: false, ..Default::default() };
    let mut cfg = CorpusCfg::new(2);
    cfg.seeds = qgen::enumerate(sm, &[qgen::skeleton()], 1, &cfg_e1).into_iter().skip(1).flatten().collect();
    cfg.gen = GenCfg { allow: Some(vec!["Pt", "Fct", "Fcf"]), wide_filters: true, naming_devs: false, ..Default::default() };
    cfg.max_arg_maps = 1;
    cfg
}

/// One-edge structures (and the bare skeleton) + up to two deviations restricted to variable filters
/// and variable reuse: one variable used on two vertices / in two operators, in either order.
pub fn var_reuse_cfg(uni: &Universe) -> CorpusCfg {
    let sm = &uni.world.schema;
    let cfg_e = GenCfg { allow: Some(vec!["E"]), e_names: Some(vec!["next", "one"]), e_contents: vec![0], recurse_depths: vec![2], naming_devs: false, ..Default::default() };
    let mut seeds: Vec<Query> = vec![qgen::skeleton()];
    seeds.extend(qgen::enumerate(sm, &[qgen::skeleton()], 1, &cfg_e).into_iter().skip(1).flatten());
    let mut cfg = CorpusCfg::new(2);
    cfg.seeds = seeds;
    cfg.gen = GenCfg { allow: Some(vec!["Pf", "Fcf", "Pv"]), wide_filters: true, naming_devs: false, ..Default::default() };
    cfg
}

pub struct CompiledQuery {
    pub q: Query,
    pub text: String,
    pub iq: Arc<IndexedQuery>,
    pub var_types: BTreeMap<String, TyRef>,
    pub arg_maps: Vec<Args>,
    pub layer: usize,
}

pub struct Case<'a> {
    pub cq: &'a CompiledQuery,
    pub ds: &'a Arc<Dataset>,
    pub args: &'a Args,
}

impl<'a> Case<'a> {
    pub fn replay(&self) -> Value {
        json!({
            "schema_id": "S-verif",
            "query_text": self.cq.text,
            "arguments": engine::args_json(self.args),
            "dataset": self.ds.to_json(),
        })
    }
}

#[derive(Default)]
pub struct CorpusStats {
    pub generated_per_layer: Vec<usize>,
    pub completed_k: usize,
    pub compiled: u64,
    pub rejected: u64,
    pub rejected_kinds: BTreeMap<String, u64>,
    pub frontend_panics: u64,
    pub frontend_panic_keys: BTreeSet<String>,
    pub oracle_undefined_queries: u64,
    pub cases: u64,
    pub distinct_ir: u64,
    pub capped: bool,
    pub queries_done: u64,
    pub queries_total: u64,
    pub extra: Vec<(String, CorpusStats)>,
}

impl CorpusStats {
    pub fn to_json(&self) -> Value {
        json!({
            "generated_per_deviation_layer": self.generated_per_layer,
            "deviation_bound_completed": self.completed_k,
            "queries_compiled": self.compiled,
            "queries_rejected_by_frontend": self.rejected,
            "rejection_kinds": self.rejected_kinds,
            "frontend_panics": self.frontend_panics,
            "queries_skipped_oracle_undefined": self.oracle_undefined_queries,
            "cases_executed": self.cases,
            "distinct_ir": self.distinct_ir,
            "time_cap_hit": self.capped,
            "queries_processed": self.queries_done,
            "queries_enumerated": self.queries_total,
            "further_spaces": self.extra.iter().map(|(k, v)| (k.clone(), v.to_json())).collect::<BTreeMap<_, _>>(),
        })
    }
}

fn error_kind(e: &str) -> String {
    // first identifier of the Debug form of FrontendError, unwrapping MultipleErrors / DisplayVec
    let inner = e.trim_start_matches("MultipleErrors(").trim_start_matches("DisplayVec(").trim_start_matches('[');
    let inner = inner.trim_start_matches("FilterTypeError(").trim_start_matches("ValidationError(");
    inner.chars().take_while(|c| c.is_alphanumeric()).collect()
}

/// Enumerate, compile, and run `per_case` over every case. `per_query` runs once per compiled query.
pub fn drive(
    ctx: &Ctx,
    uni: &Universe,
    cfg: &CorpusCfg,
    per_query: &(dyn Fn(&CompiledQuery) + Sync),
    per_case: &(dyn Fn(&Case<'_>) + Sync),
    on_frontend_panic: &(dyn Fn(&str, &PanicRec) + Sync),
) -> CorpusStats {
    let sm = &uni.world.schema;
    let mut stats = CorpusStats::default();

    // Enumeration: layers 0..=k sequentially up to k-1, the last layer expanded in parallel.
    // Layers 0..=min(k-1,2) are materialised; the last layer is streamed from the one before it (only
    // its fingerprints are kept), so memory stays bounded.
    // The last layer is always streamed (never materialised): its size is the product of the
    // previous layer and the menu, which reaches tens of millions for wide menus.
    let base_k = cfg.k.saturating_sub(1).min(2);
    let layers = qgen::enumerate(sm, &cfg.seeds, base_k, &cfg.gen);
    stats.generated_per_layer = layers.iter().map(|l| l.len()).collect();
    const SHARDS: usize = 256;
    let seen: Vec<Mutex<HashSet<u64>>> = (0..SHARDS).map(|_| Mutex::new(HashSet::new())).collect();
    if cfg.k > base_k {
        for q in layers.iter().flatten() {
            let f = qgen::fingerprint(q);
            seen[(f % SHARDS as u64) as usize].lock().unwrap().insert(f);
        }
    }

    let compiled = AtomicU64::new(0);
    let rejected = AtomicU64::new(0);
    let fpanics = AtomicU64::new(0);
    let undefined = AtomicU64::new(0);
    let cases = AtomicU64::new(0);
    let done = AtomicU64::new(0);
    let capped = AtomicBool::new(false);
    let kinds: Mutex<BTreeMap<String, u64>> = Mutex::new(BTreeMap::new());
    let pkeys: Mutex<BTreeSet<String>> = Mutex::new(BTreeSet::new());
    let irs: Mutex<HashSet<u64>> = Mutex::new(HashSet::new());
    let budget = ctx.budget_s();

    let total = AtomicU64::new(0);
    let keep = |q: &Query| cfg.keep.as_ref().map(|k| k(q)).unwrap_or(true);
    let process = |q: &Query, li: usize| {
        done.fetch_add(1, Ordering::Relaxed);
        let text = q.text();
        let iq = match engine::compile(&uni.schema, &text) {
            Compiled::Ok(iq) => iq,
            Compiled::Err(e) => {
                rejected.fetch_add(1, Ordering::Relaxed);
                *kinds.lock().unwrap().entry(error_kind(&e)).or_insert(0) += 1;
                return;
            }
            Compiled::Panic(p) => {
                fpanics.fetch_add(1, Ordering::Relaxed);
                pkeys.lock().unwrap().insert(p.key());
                on_frontend_panic(&text, &p);
                return;
            }
        };
        compiled.fetch_add(1, Ordering::Relaxed);
        irs.lock().unwrap().insert(crate::common::fnv(format!("{:?}", iq.ir_query).as_bytes()));
        let var_types = match reference::expected_variable_types(sm, q) {
            Ok(v) => v,
            Err(_) if cfg.ir_var_types_fallback => iq.ir_query.variables.iter().map(|(k, t)| (k.to_string(), TyRef::parse(&t.to_string()))).collect(),
            Err(_) => {
                undefined.fetch_add(1, Ordering::Relaxed);
                return;
            }
        };
        let mut arg_maps = qgen::argument_maps(&var_types, cfg.wide_args, cfg.args_cap_per_var);
        arg_maps.truncate(cfg.max_arg_maps);
        let cq = CompiledQuery { q: q.clone(), text, iq, var_types, arg_maps, layer: li };
        per_query(&cq);
        for ds in uni.datasets.iter().filter(|d| cfg.only_datasets.as_ref().map(|n| n.iter().any(|x| *x == d.name)).unwrap_or(true)) {
            for args in &cq.arg_maps {
                cases.fetch_add(1, Ordering::Relaxed);
                per_case(&Case { cq: &cq, ds, args });
            }
        }
    };

    for (li, layer) in layers.iter().enumerate() {
        let items: Vec<&Query> = layer.iter().filter(|q| keep(q)).collect();
        total.fetch_add(items.len() as u64, Ordering::Relaxed);
        let layer_capped = AtomicBool::new(false);
        items.par_iter().for_each(|q| {
            if ctx.elapsed() > budget {
                layer_capped.store(true, Ordering::Relaxed);
                return;
            }
            process(q, li);
        });
        if layer_capped.load(Ordering::Relaxed) {
            capped.store(true, Ordering::Relaxed);
            break;
        }
        stats.completed_k = li;
    }
    // further spaces go before the streamed (deepest) layer: lower bounds are completed first
    let mut extra_stats: Vec<(String, CorpusStats)> = vec![];
    let mut extra_cases = 0;
    let mut extra_capped = false;
    for (label, sub) in &cfg.extra {
        if ctx.elapsed() > budget || capped.load(Ordering::Relaxed) {
            extra_capped = true;
            break;
        }
        let st = drive(ctx, uni, sub, per_query, per_case, on_frontend_panic);
        extra_cases += st.cases;
        extra_capped |= st.capped;
        extra_stats.push((label.to_string(), st));
    }
    // streamed layers beyond the materialised ones
    if cfg.k > base_k && !capped.load(Ordering::Relaxed) && !extra_capped {
        assert!(cfg.k == base_k + 1, "only one streamed layer is supported");
        let gen3 = AtomicU64::new(0);
        let layer_capped = AtomicBool::new(false);
        // In the thorough tier a streamed layer may use at most `stream_share` of the budget that is
        // left when it starts, so that the spaces a check drives afterwards still get their turn.
        let budget = if ctx.tier == crate::common::Tier::Thorough { ctx.elapsed() + (budget - ctx.elapsed()).max(0.0) * cfg.stream_share } else { budget };
        layers[base_k].par_iter().for_each(|q| {
            if ctx.elapsed() > budget {
                layer_capped.store(true, Ordering::Relaxed);
                return;
            }
            for d in qgen::deviations(sm, q, &cfg.gen) {
                let f = qgen::fingerprint(&d);
                if !seen[(f % SHARDS as u64) as usize].lock().unwrap().insert(f) {
                    continue;
                }
                gen3.fetch_add(1, Ordering::Relaxed);
                if keep(&d) {
                    total.fetch_add(1, Ordering::Relaxed);
                    process(&d, cfg.k);
                }
            }
        });
        stats.generated_per_layer.push(gen3.into_inner() as usize);
        if layer_capped.load(Ordering::Relaxed) {
            capped.store(true, Ordering::Relaxed);
        } else {
            stats.completed_k = cfg.k;
        }
    }
    stats.queries_total = total.into_inner();


    stats.compiled = compiled.into_inner();
    stats.rejected = rejected.into_inner();
    stats.frontend_panics = fpanics.into_inner();
    stats.oracle_undefined_queries = undefined.into_inner();
    stats.cases = cases.into_inner();
    stats.queries_done = done.into_inner();
    stats.capped = capped.into_inner();
    stats.rejected_kinds = kinds.into_inner().unwrap();
    stats.frontend_panic_keys = pkeys.into_inner().unwrap();
    stats.distinct_ir = irs.into_inner().unwrap().len() as u64;
    stats.cases += extra_cases;
    stats.capped |= extra_capped;
    stats.extra = extra_stats;
    stats
}

/// Two-edge structures + one deviation of any kind (all operators with variables and tags, counts,
/// coercions, outputs): every single feature placed into every two-edge arrangement.
pub fn structures_any_cfg(uni: &Universe) -> CorpusCfg {
    let mut cfg = structures_cfg(uni, 1, vec!["C", "Po", "Pf", "Px", "Pt", "Fco", "Fcf", "Fct"], 0);
    cfg.gen.allow = Some(vec!["C", "Po", "Pf", "Px", "Pt", "Fco", "Fcf", "Fct"]);
    cfg.max_arg_maps = 2;
    cfg
}

/// Replay support: rebuild a single case from a replay artefact.
pub fn case_from_replay(uni: &Universe, v: &Value) -> Result<(CompiledQuery, Arc<Dataset>, Args), String> {
    let text = v["query_text"].as_str().ok_or("no query_text")?.to_string();
    let q = qast::parse_query_text(&text)?;
    let iq = match engine::compile(&uni.schema, &text) {
        Compiled::Ok(iq) => iq,
        Compiled::Err(e) => return Err(format!("frontend rejects: {e}")),
        Compiled::Panic(p) => return Err(format!("frontend panics: {}", p.message)),
    };
    let var_types = reference::expected_variable_types(&uni.world.schema, &q).map_err(|e| e.0)?;
    let args = engine::args_from_json(&v["arguments"]);
    let ds = Arc::new(Dataset::from_json(&v["dataset"]));
    Ok((CompiledQuery { q, text, iq, var_types, arg_maps: vec![args.clone()], layer: 0 }, ds, args))
}
