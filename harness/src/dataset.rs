//! Finite graph datasets and the "world" (schema model + edge rules) they live in.
//! Both the generic adapter (engine side) and the reference evaluator (oracle side) read the same
//! dataset; it is the environment, not the subject under test.

use std::{collections::BTreeMap, sync::Arc};

use serde_json::{json, Value};
use trustfall_core::ir::FieldValue as FV;

use crate::{
    schema_model::SchemaModel,
    values::{self, ref_cmp, ref_eq, show, unshow},
};

#[derive(Clone, Debug)]
pub struct VData {
    pub ty: String,
    pub props: BTreeMap<String, FV>,
}

#[derive(Clone, Debug)]
pub struct Dataset {
    pub name: String,
    pub vertices: Vec<VData>,
    /// labelled edges in neighbour order
    pub edges: Vec<(usize, String, usize)>,
}

impl Dataset {
    pub fn new(name: &str) -> Dataset {
        Dataset { name: name.to_string(), vertices: vec![], edges: vec![] }
    }
    pub fn add(&mut self, ty: &str, props: Vec<(&str, FV)>) -> usize {
        self.vertices.push(VData { ty: ty.to_string(), props: props.into_iter().map(|(k, v)| (k.to_string(), v)).collect() });
        self.vertices.len() - 1
    }
    pub fn edge(&mut self, from: usize, name: &str, to: usize) {
        self.edges.push((from, name.to_string(), to));
    }
    pub fn out(&self, v: usize, name: &str) -> Vec<usize> {
        self.edges.iter().filter(|(f, n, _)| *f == v && n == name).map(|(_, _, t)| *t).collect()
    }
    pub fn prop(&self, v: usize, name: &str) -> FV {
        if name == "__typename" {
            return values::s(&self.vertices[v].ty);
        }
        self.vertices[v].props.get(name).cloned().unwrap_or(FV::Null)
    }
    pub fn to_json(&self) -> Value {
        json!({
            "name": self.name,
            "vertices": self.vertices.iter().map(|v| json!({"type": v.ty, "props": v.props.iter().map(|(k, x)| (k.clone(), show(x))).collect::<BTreeMap<_, _>>()})).collect::<Vec<_>>(),
            "edges": self.edges.iter().map(|(f, n, t)| json!([f, n, t])).collect::<Vec<_>>(),
        })
    }
    pub fn from_json(v: &Value) -> Dataset {
        Dataset {
            name: v["name"].as_str().unwrap_or("replay").to_string(),
            vertices: v["vertices"]
                .as_array()
                .unwrap()
                .iter()
                .map(|x| VData {
                    ty: x["type"].as_str().unwrap().to_string(),
                    props: x["props"].as_object().unwrap().iter().map(|(k, p)| (k.clone(), unshow(p))).collect(),
                })
                .collect(),
            edges: v["edges"]
                .as_array()
                .unwrap()
                .iter()
                .map(|e| (e[0].as_u64().unwrap() as usize, e[1].as_str().unwrap().to_string(), e[2].as_u64().unwrap() as usize))
                .collect(),
        }
    }
}

/// Schema model + the rules that turn (root edge | edge, parameters) into vertices.
#[derive(Clone, Debug)]
pub struct World {
    pub schema: Arc<SchemaModel>,
    /// S-verif semantics for `V(min, only)` and `nb(min, tag)`.
    pub sverif_rules: bool,
}

impl World {
    pub fn generic(schema: Arc<SchemaModel>) -> World {
        World { schema, sverif_rules: false }
    }
    pub fn sverif() -> World {
        World { schema: Arc::new(SchemaModel::parse(SVERIF_TEXT)), sverif_rules: true }
    }

    pub fn instance_of(&self, ds: &Dataset, v: usize, ty: &str) -> bool {
        self.schema.instance_of(&ds.vertices[v].ty, ty)
    }

    pub fn start(&self, ds: &Dataset, root_edge: &str, params: &BTreeMap<String, FV>) -> Vec<usize> {
        let field = self.schema.root_type().field(root_edge).expect("root edge not in schema");
        let target = field.ty.base();
        let mut out: Vec<usize> = (0..ds.vertices.len()).filter(|v| self.instance_of(ds, *v, target)).collect();
        if self.sverif_rules && root_edge == "V" {
            let min = params.get("min").cloned().unwrap_or(FV::Null);
            let only = params.get("only").cloned().unwrap_or(FV::Null);
            out.retain(|v| {
                let id_ok = matches!(min, FV::Null) || matches!(ref_cmp(&ds.prop(*v, "id"), &min), Some(o) if o != std::cmp::Ordering::Less);
                let s_ok = matches!(only, FV::Null) || ref_eq(&ds.prop(*v, "s"), &only);
                id_ok && s_ok
            });
        }
        if !field.ty.is_list() {
            out.truncate(1);
        }
        out
    }

    pub fn neighbors(&self, ds: &Dataset, v: usize, from_type: &str, edge: &str, params: &BTreeMap<String, FV>) -> Vec<usize> {
        let _ = from_type;
        if self.sverif_rules && edge == "nb" {
            let min = params.get("min").cloned().unwrap_or(FV::Null);
            let tag = params.get("tag").cloned().unwrap_or(FV::Null);
            return ds
                .out(v, "next")
                .into_iter()
                .filter(|t| {
                    let n_ok = matches!(ref_cmp(&ds.prop(*t, "n"), &min), Some(o) if o != std::cmp::Ordering::Less);
                    let s_ok = matches!(tag, FV::Null) || ref_eq(&ds.prop(*t, "s"), &tag);
                    n_ok && s_ok
                })
                .collect();
        }
        if self.sverif_rules && edge == "req" {
            // `req(k: Int!)` has a required parameter without default: the `next` neighbours whose id is at least k
            // ... and, when `lim` (nullable, declared default 9) is not null, at most lim
            let k = params.get("k").cloned().unwrap_or(FV::Null);
            let lim = params.get("lim").cloned().unwrap_or(FV::Null);
            return ds
                .out(v, "next")
                .into_iter()
                .filter(|t| matches!(ref_cmp(&ds.prop(*t, "id"), &k), Some(o) if o != std::cmp::Ordering::Less))
                .filter(|t| matches!(lim, FV::Null) || matches!(ref_cmp(&ds.prop(*t, "id"), &lim), Some(o) if o != std::cmp::Ordering::Greater))
                .collect();
        }
        if self.sverif_rules && edge == "opt" {
            // `opt(x: Int, y: String)`: every parameter nullable and without a declared default (so a bare
            // `opt` has an all-null parameter map): the `next` neighbours with id >= x (if x is not null)
            // and s = y (if y is not null)
            let x = params.get("x").cloned().unwrap_or(FV::Null);
            let y = params.get("y").cloned().unwrap_or(FV::Null);
            return ds
                .out(v, "next")
                .into_iter()
                .filter(|t| matches!(x, FV::Null) || matches!(ref_cmp(&ds.prop(*t, "id"), &x), Some(o) if o != std::cmp::Ordering::Less))
                .filter(|t| matches!(y, FV::Null) || ref_eq(&ds.prop(*t, "s"), &y))
                .collect();
        }
        ds.out(v, edge)
    }
}

pub const SVERIF_TEXT: &str = include_str!("../schemas/sverif.graphql");

// -------------------------------------------------------------------------------------------
// Curated datasets for S-verif

fn item(ds: &mut Dataset, ty: &str, id: i64, n: FV, s: FV) -> usize {
    ds.add(ty, vec![("id", values::i(id)), ("n", n), ("s", s), ("l", FV::Null), ("ls", FV::Null), ("ll", FV::Null), ("f", FV::Null), ("b", FV::Null)])
}

fn set(ds: &mut Dataset, v: usize, k: &str, x: FV) {
    ds.vertices[v].props.insert(k.to_string(), x);
}

pub fn curated() -> Vec<Dataset> {
    use values::{i, list, s, u};
    let mut out = vec![];

    out.push(Dataset::new("empty"));

    let mut d = Dataset::new("single");
    item(&mut d, "A", 0, i(1), s("a"));
    out.push(d);

    let mut d = Dataset::new("selfloop");
    let a = item(&mut d, "A", 0, i(1), s("a"));
    d.edge(a, "next", a);
    d.edge(a, "one", a);
    d.edge(a, "up", a);
    out.push(d);

    let mut d = Dataset::new("twocycle");
    let a = item(&mut d, "A", 0, i(1), s("a"));
    let b = item(&mut d, "B", 1, i(2), s("b"));
    d.edge(a, "next", b);
    d.edge(b, "next", a);
    d.edge(a, "one", b);
    d.edge(b, "back", a);
    d.edge(a, "extra", b);
    out.push(d);

    // diamond: two paths from 0 to 3 (multiset semantics, one row per path)
    let mut d = Dataset::new("diamond");
    let v0 = item(&mut d, "A", 0, i(0), s("a"));
    let v1 = item(&mut d, "A", 1, i(1), s("b"));
    let v2 = item(&mut d, "B", 2, i(1), s("a"));
    let v3 = item(&mut d, "B", 3, i(2), FV::Null);
    d.edge(v0, "next", v1);
    d.edge(v0, "next", v2);
    d.edge(v1, "next", v3);
    d.edge(v2, "next", v3);
    d.edge(v0, "one", v1);
    d.edge(v1, "one", v3);
    d.edge(v0, "up", v1);
    d.edge(v0, "up", v2); // a non-A vertex at recursion level 1 (fails the implicit coercion early)
    d.edge(v1, "up", v2);
    d.edge(v0, "extra", v2);
    d.edge(v0, "extra", v3);
    d.edge(v2, "back", v0);
    set(&mut d, v0, "l", list(vec![i(1), i(2)]));
    set(&mut d, v1, "l", list(vec![]));
    set(&mut d, v2, "l", list(vec![FV::Null, u(1)]));
    set(&mut d, v0, "ll", list(vec![list(vec![]), list(vec![i(1), i(2)])]));
    set(&mut d, v1, "ll", list(vec![FV::Null, list(vec![FV::Null, u(1)])]));
    set(&mut d, v0, "ls", list(vec![s("a"), s("b")]));
    set(&mut d, v1, "ls", list(vec![]));
    set(&mut d, v3, "ls", list(vec![FV::Null, s("")]));
    set(&mut d, v0, "f", FV::Float64(1.5));
    set(&mut d, v1, "f", FV::Float64(-0.0));
    set(&mut d, v0, "b", FV::Boolean(true));
    set(&mut d, v2, "b", FV::Boolean(false));
    out.push(d);

    // chain of 4 (recursion depth), last vertex has no next (empty fold), alternating types
    let mut d = Dataset::new("chain4");
    let v: Vec<usize> = (0..4).map(|k| item(&mut d, if k % 2 == 0 { "A" } else { "B" }, k, i(k), s(if k < 2 { "a" } else { "b" }))).collect();
    for k in 0..3 {
        d.edge(v[k], "next", v[k + 1]);
        d.edge(v[k], "one", v[k + 1]);
    }
    d.edge(v[0], "up", v[2]);
    d.edge(v[2], "up", v[3]);
    d.edge(v[0], "extra", v[1]);
    d.edge(v[2], "extra", v[3]);
    d.edge(v[1], "back", v[0]);
    out.push(d);

    // fan: one vertex with 3 neighbours (fold counts 3, 0, 0, 0), equal / null property values
    let mut d = Dataset::new("fan3");
    let h = item(&mut d, "A", 0, i(2), s("a"));
    let x = item(&mut d, "A", 1, i(2), s("a"));
    let y = item(&mut d, "B", 2, FV::Null, FV::Null);
    let z = item(&mut d, "B", 3, i(3), s("ab"));
    for t in [x, y, z] {
        d.edge(h, "next", t);
    }
    d.edge(h, "extra", y);
    d.edge(h, "extra", z);
    d.edge(h, "up", x);
    d.edge(x, "next", z);
    d.edge(x, "next", h);
    set(&mut d, h, "l", list(vec![i(2), i(3)]));
    set(&mut d, h, "ls", list(vec![s("a")]));
    set(&mut d, z, "ls", list(vec![s("ab"), s("(")]));
    set(&mut d, x, "l", list(vec![i(2)]));
    out.push(d);

    // extreme values
    let mut d = Dataset::new("extremes");
    let a = item(&mut d, "A", 0, i(i64::MIN), s(""));
    let b = item(&mut d, "B", 1, u(u64::MAX), s("("));
    let c = item(&mut d, "A", 2, u(0), s(".*"));
    let e = item(&mut d, "B", 3, i(-1), s("a"));
    d.edge(a, "next", b);
    d.edge(a, "next", c);
    d.edge(a, "next", e);
    d.edge(b, "next", a);
    d.edge(c, "one", e);
    d.edge(a, "one", b);
    set(&mut d, a, "l", list(vec![i(i64::MIN), u(u64::MAX)]));
    set(&mut d, b, "f", FV::Float64(f64::MAX));
    out.push(d);

    // two fans with different counts (0,1,2,3 fold sizes on different start vertices) for C22
    let mut d = Dataset::new("counts0123");
    let hs: Vec<usize> = (0..4).map(|k| item(&mut d, "A", k, i(k), s("h"))).collect();
    let ts: Vec<usize> = (0..3).map(|k| item(&mut d, "B", 10 + k, i(k), s(if k == 1 { "a" } else { "b" }))).collect();
    for (k, h) in hs.iter().enumerate() {
        for t in ts.iter().take(k) {
            d.edge(*h, "next", *t);
            d.edge(*h, "extra", *t);
        }
    }
    // second level so that nested folds have content
    d.edge(ts[0], "next", ts[1]);
    d.edge(ts[0], "next", ts[2]);
    d.edge(ts[1], "next", ts[2]);
    d.edge(ts[0], "back", hs[3]);
    out.push(d);

    // chains of C vertices linked to Named vertices of other types (recursion with coercion)
    let mut d = Dataset::new("chains");
    let c0 = d.add("C", vec![("s", s("c0"))]);
    let c1 = d.add("C", vec![("s", s("c1"))]);
    let c2 = d.add("C", vec![("s", FV::Null)]);
    let a = item(&mut d, "A", 0, i(1), s("a"));
    let b = item(&mut d, "B", 1, i(2), s("b"));
    d.edge(c0, "link", c1);
    d.edge(c0, "link", a);
    d.edge(c1, "link", c2);
    d.edge(c1, "link", b);
    d.edge(c2, "link", c0);
    d.edge(a, "next", b);
    out.push(d);

    out
}

/// D-tiny: every graph over at most two Item vertices with types in {A, B}, n in {null, 1, 2},
/// every subset of the four possible `next` edges (self-loops included) and every `one`
/// assignment (none / to vertex 0 / to vertex 1). 5184 two-vertex graphs + 36 one-vertex graphs.
/// `s` is fixed per vertex ("a", "b") so that string filters have something to distinguish.
pub fn tiny_family() -> Vec<Dataset> {
    use values::{i, s};
    let ns = [FV::Null, i(1), i(2)];
    let tys = ["A", "B"];
    let mut out = vec![];
    // one vertex
    for t in tys {
        for n in &ns {
            for self_next in [false, true] {
                for self_one in [false, true] {
                    let mut d = Dataset::new(&format!("tiny1-{t}-{}-{}{}", out.len(), self_next as u8, self_one as u8));
                    let v = item(&mut d, t, 0, n.clone(), s("a"));
                    if self_next {
                        d.edge(v, "next", v);
                    }
                    if self_one {
                        d.edge(v, "one", v);
                    }
                    out.push(d);
                }
            }
        }
    }
    // two vertices
    for t0 in tys {
        for t1 in tys {
            for n0 in &ns {
                for n1 in &ns {
                    for next_mask in 0u8..16 {
                        for one0 in 0u8..3 {
                            for one1 in 0u8..3 {
                                let mut d = Dataset::new(&format!("tiny2-{}", out.len()));
                                let a = item(&mut d, t0, 0, n0.clone(), s("a"));
                                let b = item(&mut d, t1, 1, n1.clone(), s("b"));
                                let vs = [a, b];
                                for (bit, (f, t)) in [(0, 0), (0, 1), (1, 0), (1, 1)].iter().enumerate() {
                                    if next_mask & (1 << bit) != 0 {
                                        d.edge(vs[*f], "next", vs[*t]);
                                    }
                                }
                                if one0 > 0 {
                                    d.edge(a, "one", vs[(one0 - 1) as usize]);
                                }
                                if one1 > 0 {
                                    d.edge(b, "one", vs[(one1 - 1) as usize]);
                                }
                                out.push(d);
                            }
                        }
                    }
                }
            }
        }
    }
    out
}
