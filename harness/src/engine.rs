//! Thin wrappers that run the real engine under `catch_unwind` and normalise its outcomes.

use std::{collections::BTreeMap, sync::Arc};

use serde_json::{json, Value};
use trustfall_core::{
    frontend,
    interpreter::{execution::interpret_ir, Adapter},
    ir::{FieldValue as FV, IndexedQuery},
    schema::Schema,
};

use crate::{
    common::{catch, PanicRec},
    values::{canon, show},
};

pub type Row = BTreeMap<Arc<str>, FV>;
pub type Args = BTreeMap<String, FV>;

pub enum Compiled {
    Ok(Arc<IndexedQuery>),
    Err(String),
    Panic(PanicRec),
}

pub fn compile(schema: &Schema, text: &str) -> Compiled {
    match catch(|| frontend::parse(schema, text)) {
        Ok(Ok(q)) => Compiled::Ok(q),
        Ok(Err(e)) => Compiled::Err(format!("{e:?}")),
        Err(p) => Compiled::Panic(p),
    }
}

#[derive(Debug)]
pub enum Exec {
    Rows(Vec<Row>),
    ArgError(String),
    Panic { rec: PanicRec, rows_before: Vec<Row> },
}

pub fn to_arc_args(args: &Args) -> Arc<BTreeMap<Arc<str>, FV>> {
    Arc::new(args.iter().map(|(k, v)| (Arc::from(k.as_str()), v.clone())).collect())
}

pub fn execute<A: Adapter<'static> + 'static>(adapter: Arc<A>, q: Arc<IndexedQuery>, args: &Args) -> Exec {
    execute_limited(adapter, q, args, usize::MAX)
}

/// Pull at most `limit` rows, then drop the iterator.
pub fn execute_limited<A: Adapter<'static> + 'static>(adapter: Arc<A>, q: Arc<IndexedQuery>, args: &Args, limit: usize) -> Exec {
    let args = to_arc_args(args);
    let mut rows: Vec<Row> = vec![];
    let r = catch(|| match interpret_ir(adapter, q, args) {
        Err(e) => Some(format!("{e:?}")),
        Ok(mut it) => {
            while rows.len() < limit {
                match it.next() {
                    Some(r) => rows.push(r),
                    None => break,
                }
            }
            None
        }
    });
    match r {
        Ok(Some(e)) => Exec::ArgError(e),
        Ok(None) => Exec::Rows(rows),
        Err(rec) => Exec::Panic { rec, rows_before: rows },
    }
}

pub fn canon_row(r: &Row) -> String {
    let mut s = String::new();
    for (k, v) in r {
        s.push_str(k);
        s.push('=');
        s.push_str(&canon(v));
        s.push(';');
    }
    s
}

pub fn canon_rows_multiset(rows: &[Row]) -> Vec<String> {
    let mut v: Vec<String> = rows.iter().map(canon_row).collect();
    v.sort();
    v
}

pub fn rows_json(rows: &[Row]) -> Value {
    Value::Array(rows.iter().map(|r| Value::Object(r.iter().map(|(k, v)| (k.to_string(), show(v))).collect())).collect())
}

pub fn args_json(args: &Args) -> Value {
    Value::Object(args.iter().map(|(k, v)| (k.clone(), show(v))).collect())
}

pub fn args_from_json(v: &Value) -> Args {
    v.as_object().map(|m| m.iter().map(|(k, x)| (k.clone(), crate::values::unshow(x))).collect()).unwrap_or_default()
}

pub fn exec_json(e: &Exec) -> Value {
    match e {
        Exec::Rows(r) => json!({"rows": rows_json(r)}),
        Exec::ArgError(s) => json!({"argument_error": s}),
        Exec::Panic { rec, rows_before } => json!({"panic": rec.to_json(), "rows_before_panic": rows_json(rows_before)}),
    }
}

pub fn parse_schema(text: &str) -> Schema {
    Schema::parse(text).unwrap_or_else(|e| crate::common::machinery(&format!("harness schema rejected: {e}")))
}
