//! Environment-choice exploration (ECE): a stateless, replay-prefix explorer with a bound on
//! *deviations* (non-default choices), never on depth. Executions always run to completion.

use std::{cell::RefCell, rc::Rc};

#[derive(Default, Debug)]
pub struct ChoiceLog {
    pub prefix: Vec<u8>,
    pub taken: Vec<u8>,
    pub arities: Vec<u8>,
    pub diverged: Option<String>,
    /// answer given beyond the prefix (0 = default environment); clamped to arity-1
    pub fallback: u8,
}

/// Handed to the environment (adapter wrapper, consumer): answers each choice point.
#[derive(Clone, Default)]
pub struct Chooser(pub Rc<RefCell<ChoiceLog>>);

impl Chooser {
    pub fn with_prefix(prefix: &[u8]) -> Chooser {
        Chooser(Rc::new(RefCell::new(ChoiceLog { prefix: prefix.to_vec(), ..Default::default() })))
    }
    /// Every choice point answers `c` (clamped): e.g. "always pre-fetch everything".
    pub fn constant(c: u8) -> Chooser {
        Chooser(Rc::new(RefCell::new(ChoiceLog { fallback: c, ..Default::default() })))
    }
    /// Choice 0 is the default environment answer; anything else is a deviation.
    pub fn choose(&self, arity: u8) -> u8 {
        let mut l = self.0.borrow_mut();
        let i = l.taken.len();
        let c = if i < l.prefix.len() {
            let c = l.prefix[i];
            if c >= arity {
                l.diverged = Some(format!("choice point {i}: replayed choice {c} but arity is {arity}"));
                0
            } else {
                c
            }
        } else {
            l.fallback.min(arity.saturating_sub(1))
        };
        l.taken.push(c);
        l.arities.push(arity);
        c
    }
}

#[derive(Default, Debug, Clone)]
pub struct ExploreStats {
    pub schedules: u64,
    pub points: u64,
    pub max_points: usize,
    pub deviation_bound: usize,
    pub capped: bool,
}

/// Explore every schedule with at most `bound` deviations. `run` executes one schedule for the
/// given prefix and returns (taken choices, arities, keep_going). Divergence while replaying a
/// prefix is a hard machinery error.
pub fn explore(bound: usize, max_schedules: u64, run: &mut dyn FnMut(&[u8]) -> (Vec<u8>, Vec<u8>, bool)) -> ExploreStats {
    let mut stats = ExploreStats { deviation_bound: bound, ..Default::default() };
    let mut stack: Vec<Vec<u8>> = vec![vec![]];
    while let Some(prefix) = stack.pop() {
        if stats.schedules >= max_schedules {
            stats.capped = true;
            break;
        }
        let (taken, arities, keep_going) = run(&prefix);
        stats.schedules += 1;
        stats.points += taken.len() as u64;
        stats.max_points = stats.max_points.max(taken.len());
        if taken.len() < prefix.len() || taken[..prefix.len()] != prefix[..] {
            crate::common::machinery(&format!("replay divergence: prefix {prefix:?} but execution took {:?}", &taken[..taken.len().min(prefix.len())]));
        }
        if !keep_going {
            break;
        }
        let mut devs = prefix.iter().filter(|c| **c != 0).count();
        for i in prefix.len()..taken.len() {
            debug_assert_eq!(taken[i], 0);
            if devs + 1 > bound {
                break;
            }
            for alt in (1..arities[i]).rev() {
                let mut p = taken[..i].to_vec();
                p.push(alt);
                stack.push(p);
            }
            let _ = &mut devs;
        }
    }
    stats
}
