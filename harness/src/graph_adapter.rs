//! Generic, strictly lazy adapter over (World, Dataset): one input pull per output, honours the
//! `None`-active-vertex rules of the adapter contract.

use std::{collections::BTreeMap, sync::Arc};

use serde::{Deserialize, Serialize};
use trustfall_core::{
    interpreter::{Adapter, AsVertex, ContextIterator, ContextOutcomeIterator, ResolveEdgeInfo, ResolveInfo, VertexIterator},
    ir::{EdgeParameters, FieldValue as FV},
};

use crate::dataset::{Dataset, World};

#[derive(Clone, Copy, Debug, PartialEq, Eq, PartialOrd, Ord, Hash, Serialize, Deserialize)]
pub struct V(pub u32);

#[derive(Clone, Debug)]
pub struct GraphAdapter {
    pub world: Arc<World>,
    pub ds: Arc<Dataset>,
}

impl GraphAdapter {
    pub fn new(world: Arc<World>, ds: Arc<Dataset>) -> Self {
        GraphAdapter { world, ds }
    }
}

pub fn params_map(p: &EdgeParameters) -> BTreeMap<String, FV> {
    p.iter().map(|(k, v)| (k.to_string(), v.clone())).collect()
}

impl Adapter<'static> for GraphAdapter {
    type Vertex = V;

    fn resolve_starting_vertices(&self, edge_name: &Arc<str>, parameters: &EdgeParameters, _info: &ResolveInfo) -> VertexIterator<'static, V> {
        let vs = self.world.start(&self.ds, edge_name, &params_map(parameters));
        Box::new(vs.into_iter().map(|v| V(v as u32)))
    }

    fn resolve_property<X: AsVertex<V> + 'static>(
        &self,
        contexts: ContextIterator<'static, X>,
        _type_name: &Arc<str>,
        property_name: &Arc<str>,
        _info: &ResolveInfo,
    ) -> ContextOutcomeIterator<'static, X, FV> {
        let ds = self.ds.clone();
        let name = property_name.clone();
        Box::new(contexts.map(move |ctx| {
            let value = match ctx.active_vertex::<V>() {
                None => FV::Null,
                Some(v) => ds.prop(v.0 as usize, &name),
            };
            (ctx, value)
        }))
    }

    fn resolve_neighbors<X: AsVertex<V> + 'static>(
        &self,
        contexts: ContextIterator<'static, X>,
        type_name: &Arc<str>,
        edge_name: &Arc<str>,
        parameters: &EdgeParameters,
        _info: &ResolveEdgeInfo,
    ) -> ContextOutcomeIterator<'static, X, VertexIterator<'static, V>> {
        let ds = self.ds.clone();
        let world = self.world.clone();
        let ty = type_name.clone();
        let edge = edge_name.clone();
        let params = params_map(parameters);
        Box::new(contexts.map(move |ctx| {
            let ns: Vec<usize> = match ctx.active_vertex::<V>() {
                None => vec![],
                Some(v) => world.neighbors(&ds, v.0 as usize, &ty, &edge, &params),
            };
            let it: VertexIterator<'static, V> = Box::new(ns.into_iter().map(|n| V(n as u32)));
            (ctx, it)
        }))
    }

    fn resolve_coercion<X: AsVertex<V> + 'static>(
        &self,
        contexts: ContextIterator<'static, X>,
        _type_name: &Arc<str>,
        coerce_to_type: &Arc<str>,
        _info: &ResolveInfo,
    ) -> ContextOutcomeIterator<'static, X, bool> {
        let ds = self.ds.clone();
        let world = self.world.clone();
        let to = coerce_to_type.clone();
        Box::new(contexts.map(move |ctx| {
            let ok = match ctx.active_vertex::<V>() {
                None => false,
                Some(v) => world.instance_of(&ds, v.0 as usize, &to),
            };
            (ctx, ok)
        }))
    }
}
