//! tfverif: one binary, one sub-command per property. See /verif/DESIGN.md.
#![allow(clippy::type_complexity)]
#![allow(dead_code)]

mod common;
mod corpus;
mod dataset;
mod engine;
mod explorer;
mod graph_adapter;
mod props;
mod qast;
mod qgen;
mod reference;
mod schema_gen;
mod schema_model;
mod values;
mod wrappers;

use common::{machinery, Ctx, Tier};

fn main() {
    let args: Vec<String> = std::env::args().skip(1).collect();
    if args.len() < 2 {
        eprintln!("usage: tfverif <C01..C27> <quick|thorough> [--replay <path>]");
        std::process::exit(2);
    }
    let id = args[0].to_uppercase();
    let tier = match std::env::var("VERIF_TIER").ok().as_deref().or(Some(args[1].as_str())) {
        Some("quick") => Tier::Quick,
        Some("thorough") => Tier::Thorough,
        other => machinery(&format!("unknown tier {other:?}")),
    };
    let tier = match args[1].as_str() {
        "quick" => Tier::Quick,
        "thorough" => Tier::Thorough,
        _ => tier,
    };
    let replay = args.iter().position(|a| a == "--replay").map(|p| std::path::PathBuf::from(&args[p + 1]));
    common::install_panic_hook();
    if id == "C14CHILD" {
        props::c14::child(tier);
    }
    let ctx = Ctx::new(&id, tier, replay);
    match props::REGISTRY.iter().find(|(n, _)| *n == id) {
        Some((_, f)) => f(&ctx),
        None => machinery(&format!("no check registered for {id}")),
    }
}
