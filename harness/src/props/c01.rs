//! C01 — engine results equal the declarative semantics (reference evaluator), over every query
//! with at most k deviations x curated datasets x argument domains.

use std::{
    cell::RefCell,
    collections::BTreeSet,
    rc::Rc,
    sync::{
        atomic::{AtomicU64, Ordering},
        Arc, Mutex,
    },
};

use serde_json::json;
use trustfall_core::{
    interpreter::{ResolveEdgeInfo, ResolveInfo},
    ir::EdgeParameters,
};

use crate::{
    common::{cov, Ctx, Samples, Tier},
    corpus::{self, Case, CorpusCfg, Universe},
    engine::{self, Exec},
    graph_adapter::{params_map, GraphAdapter, V},
    qast,
    reference::{self, RefEval},
    wrappers::{Probe, Probed},
};

#[derive(Default)]
pub struct ParamProbe {
    pub calls: RefCell<BTreeSet<(String, String)>>,
}

impl Probe<V> for ParamProbe {
    fn on_start(&self, _c: usize, edge: &str, params: &EdgeParameters, _i: &ResolveInfo) {
        self.calls.borrow_mut().insert((edge.to_string(), reference::params_key(&params_map(params))));
    }
    fn on_neighbors(&self, _c: usize, _ty: &str, edge: &str, params: &EdgeParameters, _i: &ResolveEdgeInfo) {
        self.calls.borrow_mut().insert((edge.to_string(), reference::params_key(&params_map(params))));
    }
}

/// Failure key: panics by site; wrong results by the coarse feature signature of the query.
pub fn wrong_result_key(q: &qast::Query) -> String {
    let f = qast::features(q);
    format!(
        "wrong-rows:{}{}{}{}{}{}",
        if f.fold > 0 { "fold " } else { "" },
        if f.nested_fold > 0 { "nested-fold " } else { "" },
        if f.count_filter > 0 { "count-filter " } else { "" },
        if f.optional > 0 { "optional " } else { "" },
        if f.recurse > 0 { "recurse " } else { "" },
        if f.filters_tag > 0 || f.count_tag > 0 { "tag" } else { "" }
    )
    .trim_end()
    .to_string()
}

pub fn check_case(ctx: &Ctx, uni: &Universe, case: &Case<'_>, counters: &Counters, samples: &Mutex<Samples>) {
    let probe = Rc::new(ParamProbe::default());
    let adapter = Arc::new(Probed::new(GraphAdapter::new(uni.world.clone(), case.ds.clone()), probe.clone()));
    let got = engine::execute(adapter, case.cq.iq.clone(), case.args);
    let ev = RefEval::new(&uni.world, case.ds, case.args);
    let want = match ev.run(&case.cq.q) {
        Ok(w) => w,
        Err(u) => {
            counters.undefined.fetch_add(1, Ordering::Relaxed);
            let _ = u;
            return;
        }
    };
    let want_rows: Vec<engine::Row> = want.iter().map(|o| o.iter().map(|(k, v)| (Arc::from(k.as_str()), v.clone())).collect()).collect();
    let mut rep = case.replay();
    rep["expected"] = json!({"rows": engine::rows_json(&want_rows)});
    rep["observed"] = engine::exec_json(&got);
    match &got {
        Exec::ArgError(_) => {
            counters.arg_rejected.fetch_add(1, Ordering::Relaxed);
        }
        Exec::Panic { rec, .. } => {
            ctx.fail(&rec.key(), &format!("engine panicked: {}", rec.message.lines().next().unwrap_or("")), rep);
        }
        Exec::Rows(rows) => {
            counters.executed.fetch_add(1, Ordering::Relaxed);
            let a = engine::canon_rows_multiset(rows);
            let b = engine::canon_rows_multiset(&want_rows);
            if !want_rows.is_empty() {
                counters.nonempty.fetch_add(1, Ordering::Relaxed);
            }
            if a != b {
                ctx.fail(&wrong_result_key(&case.cq.q), "engine rows differ from the declarative semantics", rep);
            } else {
                // declared-defaults clause: every parameter map the adapter saw is one the query text + schema imply
                if let Ok(allowed) = reference::allowed_edge_params(&uni.world.schema, &case.cq.q) {
                    for c in probe.calls.borrow().iter() {
                        if !allowed.contains(c) {
                            let mut rep = case.replay();
                            rep["observed"] = json!({"edge": c.0, "parameters": c.1});
                            rep["expected"] = json!({"allowed": allowed.iter().collect::<Vec<_>>()});
                            ctx.fail("edge-parameters-wrong", "adapter received edge parameters that are neither explicit, declared default, nor null", rep);
                        }
                    }
                }
                let n = counters.executed.load(Ordering::Relaxed);
                if n % 50_021 == 7 && !want_rows.is_empty() {
                    samples.lock().unwrap().offer(|| {
                        let mut r = case.replay();
                        r["rows"] = engine::rows_json(rows);
                        r.as_object_mut().unwrap().remove("dataset");
                        r["dataset_name"] = json!(case.ds.name);
                        r
                    });
                }
            }
        }
    }
}

#[derive(Default)]
pub struct Counters {
    pub executed: AtomicU64,
    pub nonempty: AtomicU64,
    pub undefined: AtomicU64,
    pub arg_rejected: AtomicU64,
}

pub fn run(ctx: &Ctx) -> ! {
    let uni = Universe::sverif();
    if let Some(path) = &ctx.replay {
        let v: serde_json::Value = serde_json::from_str(&std::fs::read_to_string(path).unwrap_or_else(|e| crate::common::machinery(&format!("{e}")))).unwrap();
        let (cq, ds, args) = corpus::case_from_replay(&uni, &v).unwrap_or_else(|e| crate::common::machinery(&e));
        let counters = Counters::default();
        let samples = Mutex::new(Samples::new(1));
        check_case(ctx, &uni, &Case { cq: &cq, ds: &ds, args: &args }, &counters, &samples);
        let ev = RefEval::new(&uni.world, &ds, &args);
        println!("query:\n{}", cq.text);
        println!("expected (reference): {:?}", ev.run(&cq.q).map(|r| r.len()));
        let adapter = Arc::new(GraphAdapter::new(uni.world.clone(), ds.clone()));
        println!("observed (engine): {}", engine::exec_json(&engine::execute(adapter, cq.iq.clone(), &args)));
        let mut c = cov();
        c.insert("evaluations".into(), json!(1));
        c.insert("distinct_nontrivial".into(), json!(1));
        ctx.finish("exploration", c, vec![]);
    }
    let k = match ctx.tier {
        Tier::Quick => 2,
        Tier::Thorough => 3,
    };
    let mut cfg = CorpusCfg::new(k);
    cfg.extra.push(("two-edge structures + one deviation of any kind", {
        let mut x = corpus::structures_any_cfg(&uni);
        x.only_datasets = Some(vec!["diamond", "fan3", "counts0123"]);
        x
    }));
    let counters = Counters::default();
    let samples = Mutex::new(Samples::new(4));
    let nontrivial: Mutex<std::collections::HashSet<u64>> = Mutex::new(Default::default());
    let stats = corpus::drive(
        ctx,
        &uni,
        &cfg,
        &|_cq| {},
        &|case| {
            check_case(ctx, &uni, case, &counters, &samples);
            let f = qast::features(&case.cq.q);
            if f.optional + f.fold + f.recurse + f.filters_tag + f.count_tag > 0 {
                nontrivial.lock().unwrap().insert(crate::common::fnv(format!("{}|{}", case.cq.text, case.ds.name).as_bytes()));
            }
        },
        &|_text, _p| {},
    );
    // second space: every query within 1 deviation (thorough: 2, strided datasets) over the
    // exhaustive family of graphs with at most two vertices (D-tiny): the "every finite dataset"
    // quantifier, bounded.
    let tiny: Vec<Arc<crate::dataset::Dataset>> = crate::dataset::tiny_family().into_iter().map(Arc::new).collect();
    let tiny_total = tiny.len();
    let stride = ctx.tier.pick(4usize, 1usize);
    let uni_tiny = Universe { world: uni.world.clone(), schema: engine::parse_schema(crate::dataset::SVERIF_TEXT), datasets: tiny.into_iter().enumerate().filter(|(k, _)| k % stride == 0).map(|(_, d)| d).collect() };
    let mut cfg_t = CorpusCfg::new(1);
    cfg_t.gen.naming_devs = false;
    cfg_t.max_arg_maps = 2;
    let stats_tiny = if ctx.elapsed() < ctx.budget_s() {
        Some(corpus::drive(ctx, &uni_tiny, &cfg_t, &|_cq| {}, &|case| check_case(ctx, &uni_tiny, case, &counters, &samples), &|_text, _p| {}))
    } else {
        None
    };
    // third space: one folded edge (every edge / parameter variant) + up to two fold-count deviations
    // (two count filters on one fold, count filter + count tag, ...: 3 deviations from the skeleton)
    let sm = &uni.world.schema;
    let cfg_e1 = crate::qgen::GenCfg { allow: Some(vec!["E"]), e_contents: vec![0], recurse_depths: vec![2], naming_devs: false, ..Default::default() };
    let one_fold: Vec<qast::Query> = crate::qgen::enumerate(sm, &[crate::qgen::skeleton()], 1, &cfg_e1).into_iter().skip(1).flatten().filter(|q| qast::features(q).fold > 0).collect();
    let mut cfg_f = CorpusCfg::new(2);
    cfg_f.seeds = one_fold;
    cfg_f.gen = crate::qgen::GenCfg { allow: Some(vec!["Fco", "Fcf", "Fct", "Po"]), naming_devs: false, ..Default::default() };
    cfg_f.wide_args = true;
    cfg_f.args_cap_per_var = 5;
    cfg_f.max_arg_maps = 12;
    let mut uni_f = Universe::sverif();
    uni_f.datasets.retain(|d| matches!(d.name.as_str(), "counts0123" | "fan3" | "diamond"));
    let stats_fold = if ctx.elapsed() < ctx.budget_s() { Some(corpus::drive(ctx, &uni_f, &cfg_f, &|_cq| {}, &|case| check_case(ctx, &uni_f, case, &counters, &samples), &|_text, _p| {})) } else { None };
    // fourth space: every arrangement of three edges (next / one; plain, @optional, @fold, @recurse(2)),
    // each carrying an output: nested combinations such as a fold inside an optional inside a recursion
    let cfg_e3 = crate::qgen::GenCfg { allow: Some(vec!["E"]), e_names: Some(vec!["next", "one"]), e_contents: vec![1], recurse_depths: vec![2], naming_devs: false, max_vertices: 4, ..Default::default() };
    let three: Vec<qast::Query> = crate::qgen::enumerate(sm, &[crate::qgen::skeleton()], 3, &cfg_e3).into_iter().skip(3).flatten().collect();
    let mut cfg_3 = CorpusCfg::new(ctx.tier.pick(0, 1));
    cfg_3.seeds = three;
    cfg_3.gen = crate::qgen::GenCfg { allow: Some(vec!["Fco", "Pf", "C"]), naming_devs: false, ..Default::default() };
    let mut uni_3 = Universe::sverif();
    uni_3.datasets.retain(|d| matches!(d.name.as_str(), "diamond" | "fan3" | "chain4" | "twocycle" | "selfloop"));
    let stats_three = if ctx.elapsed() < ctx.budget_s() { Some(corpus::drive(ctx, &uni_3, &cfg_3, &|_cq| {}, &|case| check_case(ctx, &uni_3, case, &counters, &samples), &|_text, _p| {})) } else { None };
    let mut c = cov();
    c.insert("corpus_three_edge_structures".into(), json!(stats_three.as_ref().map(|s| s.to_json())));
    c.insert("corpus_one_fold_count_deviations".into(), json!(stats_fold.as_ref().map(|s| s.to_json())));
    c.insert("corpus_tiny_datasets".into(), json!({"family_size": tiny_total, "datasets_used": uni_tiny.datasets.len(), "stats": stats_tiny.as_ref().map(|s| s.to_json())}));
    c.insert("evaluations".into(), json!(stats.cases + stats_tiny.as_ref().map(|s| s.cases).unwrap_or(0) + stats_fold.as_ref().map(|s| s.cases).unwrap_or(0) + stats_three.as_ref().map(|s| s.cases).unwrap_or(0)));
    c.insert("distinct_nontrivial".into(), json!(nontrivial.lock().unwrap().len()));
    c.insert("rule".into(), json!("every query within k deviations of the skeletons (menu in DESIGN.md 3.3) accepted by the real frontend x 10 curated datasets x every argument map over the per-variable domains, plus every query within 1 deviation x the exhaustive family of graphs with <= 2 vertices (5220 graphs; every 4th in the quick tier); engine rows (multiset) compared with the reference evaluator; non-trivial = distinct (query, dataset) pairs whose query has at least one of optional/fold/recurse/tag"));
    c.insert("corpus".into(), stats.to_json());
    c.insert("cases_compared".into(), json!(counters.executed.load(Ordering::Relaxed)));
    c.insert("cases_with_nonempty_expected_rows".into(), json!(counters.nonempty.load(Ordering::Relaxed)));
    c.insert("cases_skipped_oracle_undefined".into(), json!(counters.undefined.load(Ordering::Relaxed)));
    c.insert("cases_rejected_by_argument_validation".into(), json!(counters.arg_rejected.load(Ordering::Relaxed)));
    c.insert("samples".into(), json!(samples.lock().unwrap().items));
    c.insert("exhaustive".into(), json!(!stats.capped && stats_tiny.as_ref().map(|s| !s.capped).unwrap_or(false) && stats_fold.as_ref().map(|s| !s.capped).unwrap_or(false) && stats_three.as_ref().map(|s| !s.capped).unwrap_or(false)));
    ctx.finish(
        "exploration",
        c,
        vec![
            "the reference evaluator (DESIGN.md Appendix A) is the trusted statement of the semantics".into(),
            "datasets have at most 7 vertices; values beyond the alphabets are covered by C07".into(),
            "rows are compared as multisets; one row per path for @recurse".into(),
        ],
    )
}
