//! C02 — results independent of adapter batching / pre-fetching. ECE over a batching wrapper
//! whose pre-fetch counts are choice points; all schedules with <= d deviations are executed on
//! the real engine and compared with the default (no read-ahead) schedule.

use std::{
    collections::{BTreeMap, BTreeSet, VecDeque},
    sync::{
        atomic::{AtomicU64, Ordering},
        Arc, Mutex,
    },
};

use rayon::prelude::*;
use serde_json::{json, Value};
use trustfall_core::{
    interpreter::{Adapter, AsVertex, ContextIterator, ContextOutcomeIterator, ResolveEdgeInfo, ResolveInfo, VertexIterator},
    ir::{EdgeParameters, FieldValue as FV, IndexedQuery},
};

use crate::{
    common::{cov, Ctx, Samples, Tier},
    corpus::Universe,
    dataset::Dataset,
    engine::{self, Args, Compiled, Exec},
    explorer::{explore, Chooser},
    graph_adapter::GraphAdapter,
    qast::{self, Query},
    qgen, reference,
};

pub struct Prefetch<I: Iterator> {
    inner: I,
    buf: VecDeque<I::Item>,
    chooser: Chooser,
    done: bool,
}

impl<I: Iterator> Prefetch<I> {
    pub fn new(inner: I, chooser: Chooser) -> Self {
        let mut p = Prefetch { inner, buf: VecDeque::new(), chooser, done: false };
        p.prefetch();
        p
    }
    /// Reads ahead only while being polled (never at resolver-call time).
    pub fn new_lazy(inner: I, chooser: Chooser) -> Self {
        Prefetch { inner, buf: VecDeque::new(), chooser, done: false }
    }
    fn prefetch(&mut self) {
        if self.done {
            return;
        }
        let want = match self.chooser.choose(4) {
            0 => 0,
            1 => 1,
            2 => 2,
            _ => usize::MAX,
        };
        for _ in 0..want {
            match self.inner.next() {
                Some(x) => self.buf.push_back(x),
                None => {
                    self.done = true;
                    break;
                }
            }
        }
    }
}

impl<I: Iterator> Iterator for Prefetch<I> {
    type Item = I::Item;
    fn next(&mut self) -> Option<I::Item> {
        if let Some(x) = self.buf.pop_front() {
            return Some(x);
        }
        if self.done {
            return None;
        }
        match self.inner.next() {
            Some(x) => {
                self.prefetch();
                Some(x)
            }
            None => {
                self.done = true;
                None
            }
        }
    }
}

/// Order-preserving batching wrapper: every resolver's output (and the starting vertices) goes
/// through a `Prefetch` queue whose read-ahead is decided by the explorer.
pub struct ScheduledBatcher<A> {
    pub inner: A,
    pub chooser: Chooser,
}

/// Like `ScheduledBatcher`, but input is only pulled while the output iterator is being polled:
/// after each demanded item the wrapper reads ahead as the chooser says. Several contexts are in
/// flight when outcomes are produced, yet nothing happens at resolver-call time.
pub struct PollBatcher<A> {
    pub inner: A,
    pub chooser: Chooser,
}

impl<A: Adapter<'static> + 'static> Adapter<'static> for PollBatcher<A> {
    type Vertex = A::Vertex;

    fn resolve_starting_vertices(&self, edge_name: &Arc<str>, parameters: &EdgeParameters, info: &ResolveInfo) -> VertexIterator<'static, Self::Vertex> {
        Box::new(Prefetch::new_lazy(self.inner.resolve_starting_vertices(edge_name, parameters, info), self.chooser.clone()))
    }
    fn resolve_property<X: AsVertex<Self::Vertex> + 'static>(&self, contexts: ContextIterator<'static, X>, type_name: &Arc<str>, property_name: &Arc<str>, info: &ResolveInfo) -> ContextOutcomeIterator<'static, X, FV> {
        Box::new(Prefetch::new_lazy(self.inner.resolve_property(contexts, type_name, property_name, info), self.chooser.clone()))
    }
    fn resolve_neighbors<X: AsVertex<Self::Vertex> + 'static>(
        &self,
        contexts: ContextIterator<'static, X>,
        type_name: &Arc<str>,
        edge_name: &Arc<str>,
        parameters: &EdgeParameters,
        info: &ResolveEdgeInfo,
    ) -> ContextOutcomeIterator<'static, X, VertexIterator<'static, Self::Vertex>> {
        Box::new(Prefetch::new_lazy(self.inner.resolve_neighbors(contexts, type_name, edge_name, parameters, info), self.chooser.clone()))
    }
    fn resolve_coercion<X: AsVertex<Self::Vertex> + 'static>(&self, contexts: ContextIterator<'static, X>, type_name: &Arc<str>, coerce_to_type: &Arc<str>, info: &ResolveInfo) -> ContextOutcomeIterator<'static, X, bool> {
        Box::new(Prefetch::new_lazy(self.inner.resolve_coercion(contexts, type_name, coerce_to_type, info), self.chooser.clone()))
    }
}

impl<A: Adapter<'static> + 'static> Adapter<'static> for ScheduledBatcher<A> {
    type Vertex = A::Vertex;

    fn resolve_starting_vertices(&self, edge_name: &Arc<str>, parameters: &EdgeParameters, info: &ResolveInfo) -> VertexIterator<'static, Self::Vertex> {
        Box::new(Prefetch::new(self.inner.resolve_starting_vertices(edge_name, parameters, info), self.chooser.clone()))
    }
    fn resolve_property<X: AsVertex<Self::Vertex> + 'static>(
        &self,
        contexts: ContextIterator<'static, X>,
        type_name: &Arc<str>,
        property_name: &Arc<str>,
        info: &ResolveInfo,
    ) -> ContextOutcomeIterator<'static, X, FV> {
        Box::new(Prefetch::new(self.inner.resolve_property(contexts, type_name, property_name, info), self.chooser.clone()))
    }
    fn resolve_neighbors<X: AsVertex<Self::Vertex> + 'static>(
        &self,
        contexts: ContextIterator<'static, X>,
        type_name: &Arc<str>,
        edge_name: &Arc<str>,
        parameters: &EdgeParameters,
        info: &ResolveEdgeInfo,
    ) -> ContextOutcomeIterator<'static, X, VertexIterator<'static, Self::Vertex>> {
        Box::new(Prefetch::new(self.inner.resolve_neighbors(contexts, type_name, edge_name, parameters, info), self.chooser.clone()))
    }
    fn resolve_coercion<X: AsVertex<Self::Vertex> + 'static>(
        &self,
        contexts: ContextIterator<'static, X>,
        type_name: &Arc<str>,
        coerce_to_type: &Arc<str>,
        info: &ResolveInfo,
    ) -> ContextOutcomeIterator<'static, X, bool> {
        Box::new(Prefetch::new(self.inner.resolve_coercion(contexts, type_name, coerce_to_type, info), self.chooser.clone()))
    }
}

pub struct Program {
    pub text: String,
    pub iq: Arc<IndexedQuery>,
    pub args: Args,
    pub ds: Arc<Dataset>,
    pub origin: &'static str,
    pub bound: usize,
}

/// Hand-written programs aimed at every resolver-call site of execution.rs.
pub const HANDPICKED: &[(&str, &str)] = &[
    ("diamond", "{ V { id @output next @fold { n @output(name: \"a\") next @fold { n @output(name: \"b\") } } } }"),
    ("fan3", "{ V { id @output n @tag(name: \"t\") next @fold @transform(op: \"count\") @output(name: \"c\") { n @filter(op: \">=\", value: [\"%t\"]) s @output(name: \"ss\") } } }"),
    ("diamond", "{ V { id @output one @optional { n @output(name: \"on\") next @fold { s @output(name: \"os\") } } } }"),
    ("chain4", "{ V { id @output next @recurse(depth: 2) { n @output(name: \"rn\") one @optional { s @output(name: \"os\") } } } }"),
    ("diamond", "{ V { ... on A { id @output up @recurse(depth: 2) { n @output(name: \"un\") } extra @fold { back { id @output(name: \"bid\") } } } } }"),
    ("counts0123", "{ V { id @output next @fold @transform(op: \"count\") @filter(op: \">=\", value: [\"$k\"]) @output(name: \"c\") { n @output(name: \"ns\") next @fold { id @output(name: \"deep\") } } } }"),
    ("fan3", "{ V { id @output n @tag(name: \"t\") next { n @filter(op: \"=\", value: [\"%t\"]) s @output(name: \"s2\") next @optional { id @output(name: \"i3\") } } } }"),
    ("counts0123", "{ V { id @output next @fold @transform(op: \"count\") @tag(name: \"c\") { id } nb @fold @transform(op: \"count\") @filter(op: \"=\", value: [\"%c\"]) { n @output(name: \"en\") } } }"),
    ("chains", "{ Chains { s @output link @recurse(depth: 2) { s @output(name: \"ls\") } } }"),
    ("twocycle", "{ V { id @output next { next { next { id @output(name: \"i4\") } } } } }"),
    ("diamond", "{ V { id @output n @tag(name: \"t\") next @fold { next @fold { n @filter(op: \"<=\", value: [\"%t\"]) id @output(name: \"deep\") } } } }"),
    ("diamond", "{ V { id @output __typename @output(name: \"ty\") next { ... on B { n @output(name: \"bn\") back @optional { id @output(name: \"ba\") } } } } }"),
];

fn run_schedule(uni: &Universe, p: &Program, prefix: &[u8]) -> (Exec, Vec<u8>, Vec<u8>, Option<String>) {
    let chooser = Chooser::with_prefix(prefix);
    let adapter = Arc::new(ScheduledBatcher { inner: GraphAdapter::new(uni.world.clone(), p.ds.clone()), chooser: chooser.clone() });
    let out = engine::execute(adapter, p.iq.clone(), &p.args);
    let log = chooser.0.borrow();
    (out, log.taken.clone(), log.arities.clone(), log.diverged.clone())
}

fn select_programs(ctx: &Ctx, uni: &Universe) -> Vec<Program> {
    let sm = &uni.world.schema;
    let mut out = vec![];
    let ds_by_name: BTreeMap<&str, &Arc<Dataset>> = uni.datasets.iter().map(|d| (d.name.as_str(), d)).collect();
    let full_bound = ctx.tier.pick(2usize, 3usize);
    let mut push = |q: &Query, text: String, dsn: &str, origin: &'static str, bound: usize, out: &mut Vec<Program>| {
        let compiled = engine::compile(&uni.schema, &text);
        if origin == "handpicked" {
            if let Compiled::Err(e) = &compiled {
                eprintln!("handpicked query rejected: {text}\n  {e}");
            }
        }
        if let Compiled::Ok(iq) = compiled {
            if let Ok(vt) = reference::expected_variable_types(sm, q) {
                let args = qgen::argument_maps(&vt, false, 1).into_iter().next().unwrap_or_default();
                out.push(Program { text, iq, args, ds: (*ds_by_name[dsn]).clone(), origin, bound });
            }
        }
    };
    for (dsn, text) in HANDPICKED {
        match qast::parse_query_text(text) {
            Ok(q) => push(&q, text.to_string(), dsn, "handpicked", full_bound, &mut out),
            Err(e) => crate::common::machinery(&format!("handpicked C02 query does not parse: {e}")),
        }
    }
    if out.len() != HANDPICKED.len() {
        crate::common::machinery("a handpicked C02 query is rejected by the frontend");
    }
    // one representative (the simplest) per feature signature from the enumerated space
    let k = ctx.tier.pick(2, 3);
    let cfg = qgen::GenCfg { naming_devs: false, allow: Some(vec!["E", "C", "Po", "Poi", "Pf", "Px", "Pt", "Ae", "Fco", "Fcf", "Fct"]), ..Default::default() };
    let layers = qgen::enumerate(sm, &qgen::skeletons(), k.min(2), &cfg);
    let mut seen_sig = BTreeSet::new();
    for q in layers.iter().flatten() {
        let f = qast::features(q);
        if f.edges == 0 {
            continue;
        }
        let sig = (q.root.clone(), f.optional.min(1), f.recurse.min(1), f.fold.min(2), f.nested_fold.min(1), f.count_output.min(1), f.count_filter.min(1), f.count_tag.min(1), f.coercion.min(1), f.filters_tag.min(1), f.filters_var.min(1), f.outputs.min(3));
        if seen_sig.insert(sig) {
            let dsn = if q.root == "Chains" { "chains" } else if f.count_filter + f.count_tag > 0 { "counts0123" } else { "diamond" };
            push(q, q.text(), dsn, "signature-representative", full_bound, &mut out);
            if ctx.tier == Tier::Thorough && q.root != "Chains" {
                push(q, q.text(), "fan3", "signature-representative", full_bound, &mut out);
            }
        } else {
            // every other enumerated query with at least one edge: one deviation fewer. Parameter-value
            // variants (the `req` edge, explicit nulls) do not change the shape of the iterator pipeline and
            // are left to the signature representatives in the quick tier.
            let text = q.text();
            if ctx.tier == Tier::Quick && (text.contains("req(") || text.contains(": null")) {
                continue;
            }
            let dsn = if q.root == "Chains" { "chains" } else { "diamond" };
            push(q, q.text(), dsn, "enumerated", full_bound - 1, &mut out);
        }
    }
    // every arrangement of three edges (plain / @optional / @fold / @recurse(2)), each with an output
    {
        let cfg_e3 = qgen::GenCfg { allow: Some(vec!["E"]), e_names: Some(vec!["next", "one"]), e_contents: vec![1], recurse_depths: vec![2], naming_devs: false, max_vertices: 4, ..Default::default() };
        for q in qgen::enumerate(sm, &[qgen::skeleton()], 3, &cfg_e3).into_iter().skip(3).flatten() {
            push(&q, q.text(), "diamond", "three-edge-structures", full_bound - 1, &mut out);
        }
    }
    // tag bookkeeping across scopes (needs two edges first): see qgen::tag_shapes
    for q in qgen::tag_shapes(sm) {
        push(&q, q.text(), "diamond", "tag-shapes", full_bound - 1, &mut out);
        if ctx.tier == Tier::Thorough {
            push(&q, q.text(), "counts0123", "tag-shapes", full_bound - 1, &mut out);
        }
    }
    // folds importing two tags (needs two edges and two tag deviations first): see qgen::two_tag_fold_shapes
    for q in qgen::two_tag_fold_shapes(sm) {
        push(&q, q.text(), "diamond", "two-tag-fold-shapes", full_bound - 1, &mut out);
    }
    out
}

pub fn run(ctx: &Ctx) -> ! {
    let uni = Universe::sverif();
    let mut programs = select_programs(ctx, &uni);
    // small, targeted corpora first; the bulk corpus last, so that a wall-clock cap can only cut the bulk
    programs.sort_by_key(|p| match p.origin {
        "handpicked" => 0,
        "tag-shapes" => 1,
        "two-tag-fold-shapes" => 2,
        "three-edge-structures" => 3,
        "signature-representative" => 4,
        _ => 5,
    });
    let bound = ctx.tier.pick(2usize, 3usize);
    let by_origin: Mutex<BTreeMap<String, (u64, u64)>> = Mutex::new(BTreeMap::new());
    let schedules = AtomicU64::new(0);
    let points = AtomicU64::new(0);
    let transitions = AtomicU64::new(0);
    let programs_done = AtomicU64::new(0);
    let reduced: Mutex<Vec<Value>> = Mutex::new(vec![]);
    let capped_programs: Mutex<Vec<String>> = Mutex::new(vec![]);
    let distinct_traces: Mutex<BTreeSet<u64>> = Mutex::new(BTreeSet::new());
    let samples = Mutex::new(Samples::new(4));
    let budget = ctx.budget_s();

    programs.par_iter().for_each(|p| {
        if ctx.elapsed() > budget {
            capped_programs.lock().unwrap().push(p.text.clone());
            return;
        }
        // default schedule = baseline; must also equal the unwrapped adapter
        let (base, base_taken, _, _) = run_schedule(&uni, p, &[]);
        let plain = engine::execute(Arc::new(GraphAdapter::new(uni.world.clone(), p.ds.clone())), p.iq.clone(), &p.args);
        let base_rows = match (&base, &plain) {
            (Exec::Rows(a), Exec::Rows(b)) if a == b => a.clone(),
            (Exec::Panic { .. }, _) | (_, Exec::Panic { .. }) => return, // C09's business; no baseline to compare with
            _ => {
                ctx.fail("default-schedule-differs-from-plain", "the no-read-ahead wrapper changed the results", json!({"query_text": p.text, "dataset": p.ds.to_json(), "arguments": engine::args_json(&p.args), "observed": engine::exec_json(&base), "expected": engine::exec_json(&plain)}));
                return;
            }
        };
        // programs with many points stay at a lower deviation bound (reported)
        let my_bound = if base_taken.len() > 90 && p.bound > 2 { 2 } else { p.bound };
        if my_bound != p.bound {
            reduced.lock().unwrap().push(json!({"query_text": p.text, "points": base_taken.len(), "bound": my_bound}));
        }
        let mut local_tr = 0u64;
        let stats = explore(my_bound, 5_000_000, &mut |prefix| {
            let (out, taken, arities, diverged) = run_schedule(&uni, p, prefix);
            if let Some(d) = diverged {
                crate::common::machinery(&format!("C02 replay divergence: {d}"));
            }
            local_tr += taken.len() as u64;
            let ok = matches!(&out, Exec::Rows(r) if *r == base_rows);
            if !ok {
                // no-flake rule: the same schedule must fail the same way twice
                let (again, _, _, _) = run_schedule(&uni, p, &taken);
                if engine::exec_json(&again) != engine::exec_json(&out) {
                    crate::common::machinery("C02: schedule replay gave a different observation (uncontrolled nondeterminism)");
                }
                let key = match &out {
                    Exec::Panic { rec, .. } => rec.key(),
                    _ => "rows-differ-under-batching".to_string(),
                };
                ctx.fail(
                    &key,
                    "a read-ahead schedule changed the result sequence or crashed the engine",
                    json!({"query_text": p.text, "dataset": p.ds.to_json(), "arguments": engine::args_json(&p.args), "wrapper": "ScheduledBatcher",
                           "choices": taken, "expected": {"rows": engine::rows_json(&base_rows)}, "observed": engine::exec_json(&out)}),
                );
            }
            if taken.iter().any(|c| *c != 0) {
                distinct_traces.lock().unwrap().insert(crate::common::fnv(&taken));
            }
            (taken, arities, ctx.elapsed() < budget + 30.0)
        });
        schedules.fetch_add(stats.schedules, Ordering::Relaxed);
        points.fetch_add(stats.points, Ordering::Relaxed);
        transitions.fetch_add(local_tr, Ordering::Relaxed);
        programs_done.fetch_add(1, Ordering::Relaxed);
        {
            let mut b = by_origin.lock().unwrap();
            let e = b.entry(format!("{} (d<={})", p.origin, my_bound)).or_insert((0, 0));
            e.0 += 1;
            e.1 += stats.schedules;
        }
        if stats.capped || ctx.elapsed() >= budget + 30.0 {
            capped_programs.lock().unwrap().push(p.text.clone());
        }
        samples.lock().unwrap().offer(|| json!({"query_text": p.text, "dataset": p.ds.name, "choice_points_default_schedule": base_taken.len(), "schedules_explored": stats.schedules, "deviation_bound": my_bound, "rows": base_rows.len()}));
    });

    let capped = capped_programs.lock().unwrap().clone();
    let mut c = cov();
    c.insert("states".into(), json!(points.load(Ordering::Relaxed)));
    c.insert("transitions".into(), json!(transitions.load(Ordering::Relaxed)));
    c.insert("traces_validated_against_impl".into(), json!(schedules.load(Ordering::Relaxed)));
    c.insert("evaluations".into(), json!(schedules.load(Ordering::Relaxed)));
    c.insert("distinct_nontrivial".into(), json!(distinct_traces.lock().unwrap().len()));
    c.insert("rule".into(), json!("for each program: all pre-fetch schedules with at most d deviations from 'no read-ahead' (alternatives per choice point: pre-fetch 1, 2, all); states = choice points visited, transitions = choices taken, every schedule is one execution of the real engine; non-trivial = distinct non-default choice sequences"));
    c.insert("programs".into(), json!(programs.len()));
    c.insert("programs_completed".into(), json!(programs_done.load(Ordering::Relaxed)));
    c.insert("deviation_bound".into(), json!(bound));
    c.insert("programs_and_schedules_by_corpus".into(), json!(by_origin.lock().unwrap().iter().map(|(k, v)| (k.clone(), json!({"programs": v.0, "schedules": v.1}))).collect::<BTreeMap<_, _>>()));
    c.insert("programs_at_reduced_bound".into(), json!(reduced.lock().unwrap().clone()));
    c.insert("programs_cut_by_time_cap".into(), json!(capped.len()));
    c.insert("samples".into(), json!(samples.lock().unwrap().items));
    c.insert("exhaustive".into(), json!(capped.is_empty()));
    ctx.finish(
        "model_checking",
        c,
        vec![
            "the wrapper is order-preserving (FIFO) as the property requires".into(),
            "read-ahead amounts are {0,1,2,all}; larger finite amounts behave like one of these on datasets this small".into(),
            "the default schedule's rows are tied to the semantics by C01".into(),
        ],
    )
}
