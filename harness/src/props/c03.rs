//! C03 — laziness: starting vertices are pulled only on demand. For every program of the query
//! space and every prefix length j of its result stream: run afresh, pull j rows, read the
//! starting-vertex pull counter before the first `next()`, after row j, and after dropping.

use std::{
    cell::Cell,
    collections::BTreeSet,
    rc::Rc,
    sync::{
        atomic::{AtomicU64, Ordering},
        Arc, Mutex,
    },
};

use serde_json::json;
use trustfall_core::interpreter::execution::interpret_ir;

use crate::{
    common::{catch, cov, Ctx, Samples, Tier},
    corpus::{self, Case, CorpusCfg, Universe},
    engine::{self, Row},
    graph_adapter::{GraphAdapter, V},
    reference::RefEval,
    wrappers::{Probe, Probed},
};

#[derive(Default)]
pub struct PullCounter {
    pub pulls: Cell<usize>,
}

impl Probe<V> for PullCounter {
    fn on_start_pull(&self, _v: &V) {
        self.pulls.set(self.pulls.get() + 1);
    }
}

struct Obs {
    before_first_next: usize,
    after_rows: usize,
    after_drop: usize,
    rows: Vec<Row>,
}

fn observe(uni: &Universe, case: &Case<'_>, j: usize) -> Result<Option<Obs>, crate::common::PanicRec> {
    let probe = Rc::new(PullCounter::default());
    let adapter = Arc::new(Probed::new(GraphAdapter::new(uni.world.clone(), case.ds.clone()), probe.clone()));
    let args = engine::to_arc_args(case.args);
    let iq = case.cq.iq.clone();
    catch(move || {
        let mut it = match interpret_ir(adapter, iq, args) {
            Ok(it) => it,
            Err(_) => return None,
        };
        let before_first_next = probe.pulls.get();
        let mut rows = vec![];
        for _ in 0..j {
            match it.next() {
                Some(r) => rows.push(r),
                None => break,
            }
        }
        let after_rows = probe.pulls.get();
        drop(it);
        let after_drop = probe.pulls.get();
        Some(Obs { before_first_next, after_rows, after_drop, rows })
    })
}

pub fn run(ctx: &Ctx) -> ! {
    let uni = Universe::sverif();
    let k = ctx.tier.pick(2, 3);
    let mut cfg = CorpusCfg::new(k);
    cfg.gen.naming_devs = false;
    if ctx.tier == Tier::Thorough {
        cfg.max_arg_maps = 2;
    } else {
        cfg.max_arg_maps = 2;
        cfg.args_cap_per_var = 1;
    }
    let runs = AtomicU64::new(0);
    let rows_pulled = AtomicU64::new(0);
    let programs_with_rows = AtomicU64::new(0);
    let states: Mutex<BTreeSet<(usize, usize)>> = Mutex::new(BTreeSet::new());
    let samples = Mutex::new(Samples::new(4));
    let skipped_panics = AtomicU64::new(0);

    if ctx.tier == Tier::Thorough {
        // every prefix of every case is a fresh execution: this space is affordable only in the thorough tier
        cfg.extra.push(("two-edge structures + one deviation of any kind", {
            let mut x = corpus::structures_any_cfg(&uni);
            x.only_datasets = Some(vec!["diamond"]);
            x
        }));
    }
    cfg.stream_share = 1.0;
    let stats = corpus::drive(
        ctx,
        &uni,
        &cfg,
        &|_| {},
        &|case| {
            let ev = RefEval::new(&uni.world, case.ds, case.args);
            let groups = match ev.run_grouped(&case.cq.q) {
                Ok(g) => g,
                Err(_) => return,
            };
            let total: usize = groups.iter().map(|g| g.len()).sum();
            if total == 0 {
                // still check that building the iterator and dropping it pulls nothing
                if let Ok(Some(o)) = observe(&uni, case, 0) {
                    runs.fetch_add(1, Ordering::Relaxed);
                    if o.before_first_next != 0 || o.after_drop != 0 {
                        let mut rep = case.replay();
                        rep["prefix_rows"] = json!(0);
                        rep["observed"] = json!({"pulled_before_first_next": o.before_first_next, "pulled_after_drop": o.after_drop});
                        ctx.fail("eager-before-first-row", "starting vertices were pulled although no row was requested", rep);
                    }
                }
                return;
            }
            programs_with_rows.fetch_add(1, Ordering::Relaxed);
            // index of the start vertex contributing row j (1-based j), from the reference grouping
            let mut owner = vec![];
            for (gi, g) in groups.iter().enumerate() {
                for _ in 0..g.len() {
                    owner.push(gi);
                }
            }
            for j in 0..=total {
                let o = match observe(&uni, case, j) {
                    Ok(Some(o)) => o,
                    Ok(None) => return,
                    Err(_) => {
                        skipped_panics.fetch_add(1, Ordering::Relaxed); // C09's business
                        return;
                    }
                };
                runs.fetch_add(1, Ordering::Relaxed);
                rows_pulled.fetch_add(o.rows.len() as u64, Ordering::Relaxed);
                states.lock().unwrap().insert((o.rows.len(), o.after_rows));
                let mut rep = case.replay();
                rep["prefix_rows"] = json!(j);
                rep["observed"] = json!({"pulled_before_first_next": o.before_first_next, "pulled_after_rows": o.after_rows, "pulled_after_drop": o.after_drop, "rows": engine::rows_json(&o.rows)});
                if o.rows.len() != j {
                    return; // row count differs from the reference: C01's verdict, not C03's
                }
                // engine rows must be the concatenation of the per-start-vertex groups (as multisets)
                if j == total {
                    let mut pos = 0;
                    for g in &groups {
                        let want: Vec<Row> = g.iter().map(|o| o.iter().map(|(k, v)| (Arc::from(k.as_str()), v.clone())).collect()).collect();
                        let got = &o.rows[pos..pos + g.len()];
                        if engine::canon_rows_multiset(got) != engine::canon_rows_multiset(&want) {
                            return; // grouping assumption does not hold here: C01's verdict decides; skip laziness bound
                        }
                        pos += g.len();
                    }
                }
                if o.before_first_next != 0 {
                    ctx.fail("eager-before-first-row", "starting vertices were pulled before the first row was requested", rep);
                    return;
                }
                let allowed = if j == 0 { 0 } else { owner[j - 1] + 1 };
                if o.after_rows > allowed {
                    rep["expected"] = json!({"max_start_vertices_pulled": allowed, "row_owner_start_index": if j == 0 { json!(null) } else { json!(owner[j - 1]) }});
                    ctx.fail("pulled-ahead-of-demand", "more starting vertices were pulled than needed for the rows requested so far", rep);
                    return;
                }
                if o.after_drop != o.after_rows {
                    ctx.fail("access-after-drop", "dropping the result iterator caused further starting-vertex pulls", rep);
                    return;
                }
                if j == total && runs.load(Ordering::Relaxed) % 9001 < 3 {
                    samples.lock().unwrap().offer(|| json!({"query_text": case.cq.text, "dataset": case.ds.name, "arguments": engine::args_json(case.args), "rows": total, "start_vertices_pulled_after_last_row": o.after_rows}));
                }
            }
        },
        &|_, _| {},
    );

    let mut c = cov();
    let st = states.lock().unwrap();
    c.insert("states".into(), json!(st.len().max(1)));
    c.insert("transitions".into(), json!(rows_pulled.load(Ordering::Relaxed).max(1)));
    c.insert("traces_validated_against_impl".into(), json!(runs.load(Ordering::Relaxed)));
    c.insert("evaluations".into(), json!(runs.load(Ordering::Relaxed)));
    c.insert("distinct_nontrivial".into(), json!(programs_with_rows.load(Ordering::Relaxed)));
    c.insert("rule".into(), json!("for every (query, dataset, arguments) case of the enumerated space with n result rows and every prefix length j in 0..=n: one fresh execution over a pull-counting lazy adapter; states = distinct (rows yielded, start vertices pulled) pairs observed, transitions = rows pulled, traces = executions; non-trivial = cases with at least one row"));
    c.insert("corpus".into(), stats.to_json());
    c.insert("cases_skipped_engine_panic".into(), json!(skipped_panics.load(Ordering::Relaxed)));
    c.insert("samples".into(), json!(samples.lock().unwrap().items));
    c.insert("exhaustive".into(), json!(!stats.capped));
    ctx.finish(
        "model_checking",
        c,
        vec![
            "the adapter is strictly lazy (one input pull per output)".into(),
            "row ownership by start vertex comes from the reference evaluator; cases where the engine's rows are not the concatenation of the reference groups are left to C01".into(),
        ],
    )
}
