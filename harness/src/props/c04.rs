//! C04 — pruning with the engine's query hints never changes results. A pruning adapter discards
//! vertices by statically / dynamically required property candidates, mandatory edges and the
//! coerced type; which hints it acts on is an environment choice: none (baseline), all, or
//! exactly one hint kind at exactly one resolution point (localises a bad hint).

use std::{
    cell::{Cell, RefCell},
    collections::{BTreeMap, BTreeSet},
    sync::{
        atomic::{AtomicU64, Ordering},
        Arc, Mutex,
    },
};

use serde_json::json;
use trustfall_core::{
    interpreter::{Adapter, AsVertex, CandidateValue, ContextIterator, ContextOutcomeIterator, EdgeInfo, NeighborInfo, ResolveEdgeInfo, ResolveInfo, VertexInfo, VertexIterator},
    ir::{Argument, EdgeParameters, FieldValue as FV, IndexedQuery, Operation, Vid},
};

use crate::{
    common::{cov, Ctx, Samples, Tier},
    corpus::{self, Case, CorpusCfg, Universe},
    dataset::{Dataset, World},
    engine::{self, Exec},
    graph_adapter::{params_map, GraphAdapter, V},
    props::c06::cand_contains,
    qast, qgen,
};

#[derive(Clone, Copy, Debug, PartialEq, Eq, PartialOrd, Ord)]
pub enum Hint {
    StaticProp,
    DynamicProp,
    MandatoryEdge,
    CoercedType,
}
pub const HINTS: [Hint; 4] = [Hint::StaticProp, Hint::DynamicProp, Hint::MandatoryEdge, Hint::CoercedType];

#[derive(Clone, Copy, Debug, PartialEq, Eq)]
pub enum Mode {
    Ignore,
    All,
    /// act on one hint kind at the n-th resolution point (start = 0, then resolve_neighbors calls in order)
    Only(usize, Hint),
    /// act on the dynamic hint of exactly one property at one resolution point
    OnlyDyn(usize, &'static str),
    /// act on every hint except the dynamic hints of the listed (point, property) pairs
    AllExceptDyn(&'static [(usize, &'static str)]),
}

pub struct Pruner {
    pub world: Arc<World>,
    pub ds: Arc<Dataset>,
    pub inner: GraphAdapter,
    pub mode: Mode,
    pub points: Cell<usize>,
    /// hints that actually had something to say: (point, kind)
    pub active: RefCell<BTreeSet<(usize, Hint)>>,
    /// dynamic hints offered: (point, property, destination vid)
    pub active_dyn: RefCell<BTreeSet<(usize, String, Vid)>>,
    /// for nested dynamic hints: (point, label) -> the vid whose edge was being resolved (the execution frontier)
    pub frontier: RefCell<BTreeMap<(usize, String), Vid>>,
    pub dropped: Cell<u64>,
}

impl Pruner {
    pub fn new(world: Arc<World>, ds: Arc<Dataset>, mode: Mode) -> Self {
        Pruner { inner: GraphAdapter::new(world.clone(), ds.clone()), world, ds, mode, points: Cell::new(0), active: Default::default(), active_dyn: Default::default(), frontier: Default::default(), dropped: Cell::new(0) }
    }
    fn acts(&self, point: usize, h: Hint) -> bool {
        match self.mode {
            Mode::Ignore => false,
            Mode::All => true,
            Mode::Only(p, k) => p == point && k == h,
            Mode::OnlyDyn(..) => false,
            Mode::AllExceptDyn(_) => true,
        }
    }
    /// mandatory-edge traversal is needed both for the MandatoryEdge hint itself and to apply the
    /// dynamic hint of a nested vertex (label "Vid(n)/prop") on its own
    fn acts_mandatory(&self, point: usize) -> bool {
        self.acts(point, Hint::MandatoryEdge) || matches!(self.mode, Mode::OnlyDyn(p, label) if p == point && label.contains('/'))
    }
    fn acts_dyn(&self, point: usize, prop: &str) -> bool {
        match self.mode {
            Mode::OnlyDyn(p, name) => p == point && name == prop,
            Mode::AllExceptDyn(ex) => !ex.iter().any(|(p, name)| *p == point && *name == prop),
            _ => self.acts(point, Hint::DynamicProp),
        }
    }
    fn scalar_props(&self, ty: &str) -> Vec<String> {
        let sm = &self.world.schema;
        let mut out: Vec<String> = sm.types.get(ty).map(|t| t.fields.iter().filter(|f| !sm.is_edge(f)).map(|f| f.name.clone()).collect()).unwrap_or_default();
        out.push("__typename".into());
        out
    }
    fn edge_names(&self, ty: &str) -> Vec<String> {
        let sm = &self.world.schema;
        sm.types.get(ty).map(|t| t.fields.iter().filter(|f| sm.is_edge(f)).map(|f| f.name.clone()).collect()).unwrap_or_default()
    }

    /// Does vertex `v` (statically typed `ty`) survive the static / coercion / mandatory-edge hints of `info`?
    fn survives_static(&self, point: usize, v: usize, ty: &str, info: &impl VertexInfo, depth: usize, nested_dyn: &NestedDyn) -> bool {
        let ty = info.coerced_to_type().map(|t| t.to_string()).unwrap_or_else(|| ty.to_string());
        // `coerced_to_type()` is deliberately not acted upon: the property speaks of candidate
        // values and mandatory edges only, and the hint carries no "binding" information (under
        // @optional / @recurse a coercion does not license discarding the neighbour).
        for p in self.scalar_props(&ty) {
            if let Some(c) = info.statically_required_property(&p) {
                self.active.borrow_mut().insert((point, Hint::StaticProp));
                if self.acts(point, Hint::StaticProp) && !cand_contains(&c, &self.ds.prop(v, &p)) {
                    return false;
                }
            }
        }
        if depth == 0 {
            for e in self.edge_names(&ty) {
                let edges: Vec<EdgeInfo> = info.mandatory_edges_with_name(&e).collect();
                for ei in edges {
                    self.active.borrow_mut().insert((point, Hint::MandatoryEdge));
                    if !self.acts_mandatory(point) {
                        continue;
                    }
                    // the vertex must have a neighbour along this edge that itself survives the
                    // destination's hints (static candidates, its own mandatory edges, and the
                    // dynamic candidates resolved for this context), up to three levels deep
                    let sm = &self.world.schema;
                    let to_ty = sm.field(&ty, &e).map(|f| f.ty.base().to_string()).unwrap_or_default();
                    let ns = self.world.neighbors(&self.ds, v, &ty, &e, &params_map(ei.parameters()));
                    let dest = ei.destination();
                    let ok = ns.iter().any(|n| self.survives_nested(point, *n, &to_ty, dest, nested_dyn, 1));
                    if !ok {
                        return false;
                    }
                }
            }
        }
        true
    }

    fn survives_nested(&self, point: usize, v: usize, ty: &str, info: &NeighborInfo, nested_dyn: &NestedDyn, level: usize) -> bool {
        let ty = info.coerced_to_type().map(|t| t.to_string()).unwrap_or_else(|| ty.to_string());
        for p in self.scalar_props(&ty) {
            if let Some(c) = info.statically_required_property(&p) {
                if !cand_contains(&c, &self.ds.prop(v, &p)) {
                    return false;
                }
            }
            if let Some(c) = nested_dyn.get(&(format!("{:?}", info.vid()), p.clone())) {
                if !cand_contains(c, &self.ds.prop(v, &p)) {
                    return false;
                }
            }
        }
        if level < 3 {
            for e in self.edge_names(&ty) {
                let edges: Vec<EdgeInfo> = info.mandatory_edges_with_name(&e).collect();
                for ei in edges {
                    let to_ty = self.world.schema.field(&ty, &e).map(|f| f.ty.base().to_string()).unwrap_or_default();
                    let ns = self.world.neighbors(&self.ds, v, &ty, &e, &params_map(ei.parameters()));
                    if !ns.iter().any(|n| self.survives_nested(point, *n, &to_ty, ei.destination(), nested_dyn, level + 1)) {
                        return false;
                    }
                }
            }
        }
        true
    }

    /// Destinations reachable from `info` through mandatory edges (up to three levels), with the
    /// static type of each.
    fn nested_destinations(&self, ty: &str, info: &NeighborInfo, level: usize, out: &mut Vec<(NeighborInfo, String)>) {
        let ty = info.coerced_to_type().map(|t| t.to_string()).unwrap_or_else(|| ty.to_string());
        if level >= 3 {
            return;
        }
        for e in self.edge_names(&ty) {
            let edges: Vec<EdgeInfo> = info.mandatory_edges_with_name(&e).collect();
            for ei in edges {
                let to_ty = self.world.schema.field(&ty, &e).map(|f| f.ty.base().to_string()).unwrap_or_default();
                out.push((ei.destination().clone(), to_ty.clone()));
                self.nested_destinations(&to_ty, ei.destination(), level + 1, out);
            }
        }
    }
}

/// Per-context dynamic candidates of vertices nested below the edge being resolved:
/// (Debug form of the vertex's Vid, property) -> candidate.
pub type NestedDyn = BTreeMap<(String, String), CandidateValue<FV>>;

impl Adapter<'static> for Pruner {
    type Vertex = V;

    fn resolve_starting_vertices(&self, edge_name: &Arc<str>, parameters: &EdgeParameters, info: &ResolveInfo) -> VertexIterator<'static, V> {
        let point = self.points.get();
        self.points.set(point + 1);
        let ty = self.world.schema.root_type().field(edge_name).map(|f| f.ty.base().to_string()).unwrap_or_default();
        let vs: Vec<V> = self.inner.resolve_starting_vertices(edge_name, parameters, info).collect();
        let none = NestedDyn::new();
        let kept: Vec<V> = vs.into_iter().filter(|v| self.survives_static(point, v.0 as usize, &ty, info, 0, &none)).collect();
        Box::new(kept.into_iter())
    }

    fn resolve_property<X: AsVertex<V> + 'static>(&self, contexts: ContextIterator<'static, X>, type_name: &Arc<str>, property_name: &Arc<str>, info: &ResolveInfo) -> ContextOutcomeIterator<'static, X, FV> {
        self.inner.resolve_property(contexts, type_name, property_name, info)
    }

    fn resolve_neighbors<X: AsVertex<V> + 'static>(
        &self,
        contexts: ContextIterator<'static, X>,
        type_name: &Arc<str>,
        edge_name: &Arc<str>,
        parameters: &EdgeParameters,
        info: &ResolveEdgeInfo,
    ) -> ContextOutcomeIterator<'static, X, VertexIterator<'static, V>> {
        let point = self.points.get();
        self.points.set(point + 1);
        let dest = info.destination();
        let to_ty = self.world.schema.field(type_name, edge_name).map(|f| f.ty.base().to_string()).unwrap_or_default();
        let dest_ty = dest.coerced_to_type().map(|t| t.to_string()).unwrap_or_else(|| to_ty.clone());

        // dynamic candidates: one per (context, property); resolved eagerly, in order
        let mut ctxs: Vec<_> = contexts.collect();
        let mut dyn_cands: Vec<Vec<(String, CandidateValue<FV>)>> = ctxs.iter().map(|_| vec![]).collect();
        for p in self.scalar_props(&dest_ty) {
            if let Some(drv) = dest.dynamically_required_property(&p) {
                self.active.borrow_mut().insert((point, Hint::DynamicProp));
                self.active_dyn.borrow_mut().insert((point, p.clone(), info.destination_vid()));
                if !self.acts_dyn(point, &p) {
                    continue;
                }
                let resolved: Vec<_> = drv.resolve(&self.inner, Box::new(ctxs.into_iter())).collect();
                ctxs = Vec::with_capacity(resolved.len());
                for (k, (ctx, cand)) in resolved.into_iter().enumerate() {
                    dyn_cands[k].push((p.clone(), cand));
                    ctxs.push(ctx);
                }
            }
        }

        // dynamic candidates of vertices nested below the destination through mandatory edges
        let mut nested_dyn: Vec<NestedDyn> = ctxs.iter().map(|_| NestedDyn::new()).collect();
        if self.acts_mandatory(point) {
            let mut nested = vec![];
            self.nested_destinations(&to_ty, &dest, 0, &mut nested);
            for (ninfo, nty) in &nested {
                let nty = ninfo.coerced_to_type().map(|t| t.to_string()).unwrap_or_else(|| nty.clone());
                for p in self.scalar_props(&nty) {
                    if let Some(drv) = ninfo.dynamically_required_property(&p) {
                        let label = format!("{:?}/{p}", ninfo.vid());
                        self.active_dyn.borrow_mut().insert((point, label.clone(), ninfo.vid()));
                        self.frontier.borrow_mut().insert((point, label.clone()), info.destination_vid());
                        if !self.acts_dyn(point, &label) {
                            continue;
                        }
                        let resolved: Vec<_> = drv.resolve(&self.inner, Box::new(ctxs.into_iter())).collect();
                        ctxs = Vec::with_capacity(resolved.len());
                        for (k, (ctx, cand)) in resolved.into_iter().enumerate() {
                            nested_dyn[k].insert((format!("{:?}", ninfo.vid()), p.clone()), cand);
                            ctxs.push(ctx);
                        }
                    }
                }
            }
        }

        let mut out: Vec<(_, VertexIterator<'static, V>)> = vec![];
        let inner_results: Vec<_> = self.inner.resolve_neighbors(Box::new(ctxs.into_iter()), type_name, edge_name, parameters, info).collect();
        for (k, (ctx, ns)) in inner_results.into_iter().enumerate() {
            let ns: Vec<V> = ns.collect();
            let before = ns.len();
            let kept: Vec<V> = ns
                .into_iter()
                .filter(|n| {
                    let v = n.0 as usize;
                    if !self.survives_static(point, v, &to_ty, &dest, 0, &nested_dyn[k]) {
                        return false;
                    }
                    dyn_cands[k].iter().all(|(p, c)| cand_contains(c, &self.ds.prop(v, p)))
                })
                .collect();
            self.dropped.set(self.dropped.get() + (before - kept.len()) as u64);
            out.push((ctx, Box::new(kept.into_iter())));
        }
        Box::new(out.into_iter())
    }

    fn resolve_coercion<X: AsVertex<V> + 'static>(&self, contexts: ContextIterator<'static, X>, type_name: &Arc<str>, coerce_to_type: &Arc<str>, info: &ResolveInfo) -> ContextOutcomeIterator<'static, X, bool> {
        self.inner.resolve_coercion(contexts, type_name, coerce_to_type, info)
    }
}

fn failure_key(case: &Case<'_>, out: &Exec) -> String {
    match out {
        Exec::Panic { rec, .. } => format!("hint-{}", rec.key()),
        _ => {
            let f = qast::features(&case.cq.q);
            format!("pruned-rows-differ:{}{}{}{}", if f.filters_tag > 0 || f.count_tag > 0 { "tag " } else { "var " }, if f.fold > 0 { "fold " } else { "" }, if f.optional > 0 { "optional " } else { "" }, if f.recurse > 0 { "recurse" } else { "" }).trim_end().to_string()
        }
    }
}

pub fn check_case(ctx: &Ctx, uni: &Universe, case: &Case<'_>, c: &Counters, samples: &Mutex<Samples>) {
    let base = match engine::execute(Arc::new(GraphAdapter::new(uni.world.clone(), case.ds.clone())), case.cq.iq.clone(), case.args) {
        Exec::Rows(r) => r,
        _ => return, // C09 / C12
    };
    let base_ms = engine::canon_rows_multiset(&base);
    // "all hints" first; it also tells which (point, kind) pairs are active
    let all = Arc::new(Pruner::new(uni.world.clone(), case.ds.clone(), Mode::All));
    let out_all = engine::execute(all.clone(), case.cq.iq.clone(), case.args);
    c.runs.fetch_add(1, Ordering::Relaxed);
    let active: Vec<(usize, Hint)> = all.active.borrow().iter().cloned().collect();
    if !active.is_empty() {
        c.cases_with_hints.fetch_add(1, Ordering::Relaxed);
    }
    if all.dropped.get() > 0 {
        c.cases_pruned.fetch_add(1, Ordering::Relaxed);
    }
    let ok_all = matches!(&out_all, Exec::Rows(r) if engine::canon_rows_multiset(r) == base_ms);
    if ok_all {
        if all.dropped.get() > 0 && c.runs.load(Ordering::Relaxed) % 5003 < 5 {
            samples.lock().unwrap().offer(|| json!({"query_text": case.cq.text, "arguments": engine::args_json(case.args), "dataset": case.ds.name, "neighbours_pruned": all.dropped.get(), "active_hints": active.iter().map(|(p, h)| format!("{p}:{h:?}")).collect::<Vec<_>>(), "rows": base.len()}));
        }
        return;
    }
    // localise: exactly one hint kind at one resolution point; dynamic hints per property
    let agrees = |mode: Mode| {
        let pr = Arc::new(Pruner::new(uni.world.clone(), case.ds.clone(), mode));
        let o = engine::execute(pr, case.cq.iq.clone(), case.args);
        c.runs.fetch_add(1, Ordering::Relaxed);
        matches!(&o, Exec::Rows(r) if engine::canon_rows_multiset(r) == base_ms)
    };
    let mut culprits: Vec<String> = vec![];
    let mut dyn_culprits: Vec<(usize, &'static str, Vid)> = vec![];
    for (p, h) in &active {
        if *h == Hint::DynamicProp {
            continue;
        }
        if !agrees(Mode::Only(*p, *h)) {
            culprits.push(format!("resolution point {p}, {h:?}"));
        }
    }
    for (p, prop, vid) in all.active_dyn.borrow().iter() {
        let name: &'static str = intern(prop);
        if !agrees(Mode::OnlyDyn(*p, name)) {
            dyn_culprits.push((*p, name, *vid));
            let fr = all.frontier.borrow().get(&(*p, prop.clone())).copied().unwrap_or(*vid);
            culprits.push(format!("resolution point {p}, DynamicProp({prop}) selected filter `{}`", selected_dynamic_filter(&case.cq.iq, *vid, fr, prop)));
        }
    }
    let mut rep = case.replay();
    rep["wrapper"] = json!("Pruner(all hints)");
    rep["culprit_hints"] = json!(culprits);
    rep["expected"] = json!({"rows": engine::rows_json(&base)});
    rep["observed"] = engine::exec_json(&out_all);
    // Known finding (known_findings.json, key below): the candidate for a `>=` filter on a tag is
    // upper-bounded. A case is attributed to it only if (1) every culprit is a dynamic hint whose
    // selected filter (documented priority: =, one_of, first ordering filter, !=) is `>=`, and
    // (2) with exactly those hints ignored and all others acted upon, results agree again.
    let only_gte = culprits.len() == dyn_culprits.len() && !dyn_culprits.is_empty() && dyn_culprits.iter().all(|(p, prop, vid)| {
        let fr = all.frontier.borrow().get(&(*p, prop.to_string())).copied().unwrap_or(*vid);
        selected_dynamic_filter(&case.cq.iq, *vid, fr, prop) == ">="
    });
    if only_gte {
        let ex: &'static [(usize, &'static str)] = Box::leak(dyn_culprits.iter().map(|(p, n, _)| (*p, *n)).collect::<Vec<_>>().into_boxed_slice());
        if agrees(Mode::AllExceptDyn(ex)) {
            ctx.fail(GTE_KEY, "dynamic hint for a `>=` filter on a tag is an upper-bounded range", rep);
            return;
        }
    }
    let key = format!("{}{}", failure_key(case, &out_all), if culprits.is_empty() { " [combination]".to_string() } else if dyn_culprits.is_empty() { " [static]".into() } else { " [DynamicProp]".into() });
    ctx.fail(&key, "acting on the engine's hints changed the results (or hint computation panicked)", rep);
}

pub const GTE_KEY: &str = "dynamic-hint:>=-on-tag-yields-upper-bounded-range";

fn intern(s: &str) -> &'static str {
    static TABLE: Mutex<BTreeSet<&'static str>> = Mutex::new(BTreeSet::new());
    let mut t = TABLE.lock().unwrap();
    if let Some(x) = t.get(s) {
        return x;
    }
    let l: &'static str = Box::leak(s.to_string().into_boxed_str());
    t.insert(l);
    l
}

/// Which filter `dynamically_required_property(prop)` materialises at vertex `vid`, by the
/// priority documented in hints/vertex_info.rs: `=`, then `one_of`, then the first ordering
/// filter, then the first supported one; only filters whose right operand is a tag count.
pub fn selected_dynamic_filter(iq: &IndexedQuery, vid: Vid, frontier: Vid, prop: &str) -> &'static str {
    let prop = prop.rsplit('/').next().unwrap_or(prop);
    let Some(comp) = iq.vids.get(&vid) else { return "?" };
    let Some(v) = comp.vertices.get(&vid) else { return "?" };
    use trustfall_core::ir::LocalField;
    fn name(op: &Operation<LocalField, Argument>) -> Option<(&'static str, &LocalField, &Argument)> {
        Some(match op {
            Operation::Equals(l, r) => ("=", l, r),
            Operation::NotEquals(l, r) => ("!=", l, r),
            Operation::LessThan(l, r) => ("<", l, r),
            Operation::LessThanOrEqual(l, r) => ("<=", l, r),
            Operation::GreaterThan(l, r) => (">", l, r),
            Operation::GreaterThanOrEqual(l, r) => (">=", l, r),
            Operation::OneOf(l, r) => ("one_of", l, r),
            _ => return None,
        })
    }
    // only tags whose vertex (or fold) has already been resolved when the edge into `vid` is being
    // resolved count: the execution frontier there is Excluded(frontier)
    let resolved = |r: &Argument| match r {
        Argument::Tag(trustfall_core::ir::FieldRef::ContextField(c)) => c.vertex_id < frontier,
        Argument::Tag(trustfall_core::ir::FieldRef::FoldSpecificField(f)) => f.fold_root_vid < frontier,
        _ => false,
    };
    let rel: Vec<&'static str> = v.filters.iter().filter_map(name).filter(|(_, l, r)| l.field_name.as_ref() == prop && resolved(r)).map(|(n, _, _)| n).collect();
    for want in [&["="][..], &["one_of"][..], &["<", "<=", ">", ">="][..]] {
        if let Some(x) = rel.iter().find(|o| want.contains(o)) {
            return x;
        }
    }
    rel.first().copied().unwrap_or("?")
}

#[derive(Default)]
pub struct Counters {
    pub runs: AtomicU64,
    pub cases_with_hints: AtomicU64,
    pub cases_pruned: AtomicU64,
}

pub fn run(ctx: &Ctx) -> ! {
    let uni = Universe::sverif();
    let counters = Counters::default();
    let samples = Mutex::new(Samples::new(4));
    let distinct: Mutex<BTreeSet<u64>> = Mutex::new(BTreeSet::new());
    let per_case = |case: &Case<'_>| {
        check_case(ctx, &uni, case, &counters, &samples);
        distinct.lock().unwrap().insert(crate::common::fnv(format!("{}|{}", case.cq.text, engine::args_json(case.args)).as_bytes()));
    };
    // (0) one-edge structures + two tag deviations: two tag-dependent filters on one property (every pair of
    //     operator classes, either textual order, same or different tags), which the dynamic hints must
    //     combine / prioritise correctly
    let sm = &uni.world.schema;
    let cfg_e1 = qgen::GenCfg { allow: Some(vec!["E"]), e_names: Some(vec!["next", "one"]), e_contents: vec![0], recurse_depths: vec![1, 2], naming_devs: false, ..Default::default() };
    let one_edge: Vec<qast::Query> = qgen::enumerate(sm, &[qgen::skeleton()], 1, &cfg_e1).into_iter().skip(1).flatten().collect();
    let mut cfg0 = CorpusCfg::new(2);
    cfg0.seeds = one_edge;
    cfg0.gen = qgen::GenCfg { allow: Some(vec!["Pt"]), wide_filters: true, naming_devs: false, ..Default::default() };
    cfg0.max_arg_maps = 1;
    cfg0.only_datasets = Some(vec!["diamond", "fan3", "chains", "twocycle"]);
    let s0 = corpus::drive(ctx, &uni, &cfg0, &|_| {}, &per_case, &|_, _| {});
    // (1) the general space with the widened filter menu
    let mut cfg = CorpusCfg::new(ctx.tier.pick(2, 2));
    cfg.gen.wide_filters = true;
    cfg.gen.naming_devs = false;
    cfg.wide_args = true;
    cfg.args_cap_per_var = ctx.tier.pick(3, 6);
    cfg.max_arg_maps = ctx.tier.pick(6, 24);
    cfg.keep = Some(Arc::new(|q: &qast::Query| {
        let f = qast::features(q);
        f.filters_var + f.filters_tag + f.count_filter + f.count_tag + f.coercion > 0 || f.edges > 1
    }));
    let s1 = corpus::drive(ctx, &uni, &cfg, &|_| {}, &per_case, &|_, _| {});
    // (2) two-edge structures + one filter / tag deviation (tags across optional / fold / recurse scopes)
    let cfg_e = qgen::GenCfg { allow: Some(vec!["E"]), e_names: Some(vec!["next", "one"]), e_contents: vec![0, 1], recurse_depths: vec![1, 2], naming_devs: false, ..Default::default() };
    let structures: Vec<qast::Query> = qgen::enumerate(sm, &[qgen::skeleton()], 2, &cfg_e).into_iter().skip(1).flatten().collect();
    let mut cfg2 = CorpusCfg::new(ctx.tier.pick(1, 2));
    cfg2.seeds = structures;
    cfg2.gen = qgen::GenCfg { allow: Some(vec!["Pt", "Pf", "Fct", "Fcf", "C"]), wide_filters: true, naming_devs: false, ..Default::default() };
    cfg2.wide_args = true;
    cfg2.args_cap_per_var = 3;
    cfg2.max_arg_maps = ctx.tier.pick(4, 9);
    cfg2.stream_share = 1.0;
    let s2 = if ctx.elapsed() < ctx.budget_s() { Some(corpus::drive(ctx, &uni, &cfg2, &|_| {}, &per_case, &|_, _| {})) } else { None };

    let mut c = cov();
    c.insert("evaluations".into(), json!(counters.runs.load(Ordering::Relaxed)));
    c.insert("distinct_nontrivial".into(), json!(counters.cases_pruned.load(Ordering::Relaxed)));
    c.insert("rule".into(), json!("every (query, dataset, arguments) case of three enumerated spaces (one-edge structures + two tag deviations; k<=2 with the widened filter menu; two-edge structures + filter/tag deviations) is executed with a hint-ignoring adapter and with a pruning adapter acting on all hints; on disagreement each single (resolution point, hint kind) is tried to localise it. evaluations = pruned executions; non-trivial = cases in which the pruner actually discarded at least one vertex and results still had to match"));
    c.insert("cases_with_active_hints".into(), json!(counters.cases_with_hints.load(Ordering::Relaxed)));
    c.insert("distinct_query_argument_pairs".into(), json!(distinct.lock().unwrap().len()));
    c.insert("corpus_two_tag_filters".into(), s0.to_json());
    c.insert("corpus_general".into(), s1.to_json());
    c.insert("corpus_structures".into(), s2.as_ref().map(|s| s.to_json()).unwrap_or(json!("skipped: time budget used by the first corpus")));
    c.insert("samples".into(), json!(samples.lock().unwrap().items));
    let capped = s0.capped || s1.capped || s2.as_ref().map(|s| s.capped).unwrap_or(true);
    c.insert("exhaustive".into(), json!(!capped));
    let _ = (Tier::Quick, BTreeMap::<u8, u8>::new());
    ctx.finish(
        "exploration",
        c,
        vec![
            "candidate membership is decided by the C06 reference (i128 / string order), not by Range::contains".into(),
            "mandatory-edge pruning looks one level deep (the edge's destination static candidates)".into(),
            "the pruner resolves dynamic candidates eagerly, which C02 shows to be result-neutral".into(),
        ],
    )
}
