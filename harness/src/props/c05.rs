//! C05 — every property the engine asks the adapter to resolve for a vertex is listed in that
//! vertex's `required_properties()`. Checked inside every `resolve_property` call of every case.

use std::{
    cell::RefCell,
    collections::BTreeSet,
    rc::Rc,
    sync::{
        atomic::{AtomicU64, Ordering},
        Arc, Mutex,
    },
};

use serde_json::json;
use trustfall_core::{
    interpreter::{NeighborInfo, ResolveEdgeInfo, ResolveInfo, VertexInfo},
    ir::EdgeParameters,
};

use crate::{
    common::{cov, Ctx, Samples},
    corpus::{self, CorpusCfg, Universe},
    engine::{self, Exec},
    graph_adapter::{GraphAdapter, V},
    qast,
    wrappers::{Probe, Probed},
};

#[derive(Default)]
pub struct ReqProbe {
    pub calls: RefCell<u64>,
    /// (vid, requested property, reported list, kind)
    pub bad: RefCell<Vec<(String, String, Vec<String>, &'static str)>>,
    pub seen: RefCell<BTreeSet<(String, String)>>,
    /// every required-properties list reported for a vertex through *any* hint object: the
    /// ResolveInfo of a call at that vertex, the destination of the edge being resolved, and
    /// look-ahead along not-yet-resolved edges (recursively): (vid, how it was obtained, list)
    pub lists: RefCell<Vec<(String, String, Vec<String>)>>,
    /// edge names of the schema (for look-ahead)
    pub edge_names: Vec<String>,
}

impl ReqProbe {
    fn record(&self, vid: String, how: String, info: &impl VertexInfo) {
        self.lists.borrow_mut().push((vid, how, info.required_properties().map(|p| p.name.to_string()).collect()));
    }
    fn look_ahead(&self, how: &str, info: &NeighborInfo, depth: usize) {
        self.record(format!("{:?}", info.vid()), how.to_string(), info);
        if depth < 3 {
            for e in &self.edge_names {
                for ei in info.edges_with_name(e) {
                    self.look_ahead(&format!("{how} -> {e}"), ei.destination(), depth + 1);
                }
            }
        }
    }
    fn look_ahead_from(&self, how: &str, info: &ResolveInfo) {
        self.record(format!("{:?}", info.vid()), how.to_string(), info);
        for e in &self.edge_names {
            for ei in info.edges_with_name(e) {
                self.look_ahead(&format!("{how} -> {e}"), ei.destination(), 1);
            }
        }
    }
}

impl Probe<V> for ReqProbe {
    fn on_start(&self, _call: usize, edge: &str, _params: &EdgeParameters, info: &ResolveInfo) {
        self.look_ahead_from(&format!("resolve_starting_vertices({edge})"), info);
    }
    fn on_neighbors(&self, _call: usize, ty: &str, edge: &str, _params: &EdgeParameters, info: &ResolveEdgeInfo) {
        self.look_ahead(&format!("resolve_neighbors({ty}.{edge}).destination()"), &info.destination(), 0);
    }
    fn on_coercion(&self, _call: usize, ty: &str, to: &str, info: &ResolveInfo) {
        self.look_ahead_from(&format!("resolve_coercion({ty} -> {to})"), info);
    }
    fn on_property(&self, _call: usize, _ty: &str, prop: &str, info: &ResolveInfo) {
        *self.calls.borrow_mut() += 1;
        let listed: Vec<String> = info.required_properties().map(|p| p.name.to_string()).collect();
        let vid = format!("{:?}", info.vid());
        self.look_ahead_from(&format!("resolve_property({prop})"), info);
        self.seen.borrow_mut().insert((vid.clone(), prop.to_string()));
        if !listed.iter().any(|p| p == prop) {
            self.bad.borrow_mut().push((vid.clone(), prop.to_string(), listed.clone(), "missing"));
        }
        let uniq: BTreeSet<&String> = listed.iter().collect();
        if uniq.len() != listed.len() {
            self.bad.borrow_mut().push((vid, prop.to_string(), listed, "duplicate"));
        }
    }
}

pub fn run(ctx: &Ctx) -> ! {
    let uni = Universe::sverif();
    let mut cfg = CorpusCfg::new(ctx.tier.pick(2, 3));
    cfg.gen.naming_devs = false;
    // the hint is a function of the query alone: one dataset with data everywhere and one argument map suffice per query,
    // but the calls only happen when data flows, so keep the rich datasets
    cfg.max_arg_maps = 1;
    let keep: BTreeSet<&str> = ["diamond", "fan3", "counts0123", "chains", "chain4"].into_iter().collect();
    let uni = Universe { datasets: uni.datasets.iter().filter(|d| keep.contains(d.name.as_str())).cloned().collect(), ..uni };
    let calls = AtomicU64::new(0);
    let distinct: Mutex<BTreeSet<u64>> = Mutex::new(BTreeSet::new());
    let samples = Mutex::new(Samples::new(4));
    let edge_names: Vec<String> = {
        let sm = &uni.world.schema;
        let mut v: BTreeSet<String> = BTreeSet::new();
        for t in sm.types.values() {
            for f in &t.fields {
                if sm.types.contains_key(f.ty.base()) {
                    v.insert(f.name.clone());
                }
            }
        }
        v.into_iter().collect()
    };
    let lists_checked = AtomicU64::new(0);
    cfg.extra.push(("two-edge structures + one deviation of any kind", {
        let mut x = corpus::structures_any_cfg(&uni);
        x.only_datasets = Some(vec!["diamond", "counts0123"]);
        x
    }));
    cfg.extra.push(("one-edge structures + two tag deviations", {
        let mut x = corpus::one_edge_two_tags_cfg(&uni);
        x.only_datasets = Some(vec!["diamond", "counts0123"]);
        x
    }));
    cfg.stream_share = 1.0;
    let stats = corpus::drive(
        ctx,
        &uni,
        &cfg,
        &|_| {},
        &|case| {
            let probe = Rc::new(ReqProbe { edge_names: edge_names.clone(), ..Default::default() });
            let adapter = Arc::new(Probed::new(GraphAdapter::new(uni.world.clone(), case.ds.clone()), probe.clone()));
            let out = engine::execute(adapter, case.cq.iq.clone(), case.args);
            if let Exec::Panic { .. } = out {
                return; // C09's business
            }
            calls.fetch_add(*probe.calls.borrow(), Ordering::Relaxed);
            {
                let mut d = distinct.lock().unwrap();
                for (vid, p) in probe.seen.borrow().iter() {
                    d.insert(crate::common::fnv(format!("{}|{vid}|{p}", case.cq.text).as_bytes()));
                }
            }
            for (vid, prop, listed, kind) in probe.bad.borrow().iter() {
                let f = qast::features(&case.cq.q);
                let key = if *kind == "duplicate" {
                    "required-properties-duplicate".to_string()
                } else if f.fold > 0 && (f.filters_tag > 0 || f.count_tag > 0 || f.count_filter > 0) {
                    "required-properties-missing:tag-used-in-fold-or-count-filter".to_string()
                } else {
                    "required-properties-missing".to_string()
                };
                let mut rep = case.replay();
                rep["observed"] = json!({"vertex": vid, "requested_property": prop, "required_properties": listed});
                ctx.fail(&key, &format!("resolve_property({prop}) at {vid} but required_properties() = {listed:?}"), rep);
            }
            // every list reported for a vertex, however it was obtained, must contain every property
            // the engine requested at that vertex
            {
                let seen = probe.seen.borrow();
                for (vid, how, list) in probe.lists.borrow().iter() {
                    lists_checked.fetch_add(1, Ordering::Relaxed);
                    for (svid, prop) in seen.iter().filter(|(v, _)| v == vid) {
                        let _ = svid;
                        if !list.iter().any(|p| p == prop) {
                            let mut rep = case.replay();
                            rep["observed"] = json!({"vertex": vid, "requested_property": prop, "required_properties": list, "list_obtained_through": how});
                            let kind = if how.contains("destination()") || how.contains("->") { "required-properties-missing:in-list-reported-through-an-edge" } else { "required-properties-missing" };
                            ctx.fail(kind, &format!("resolve_property({prop}) at {vid} but the list reported through {how} is {list:?}"), rep);
                        }
                    }
                    let uniq: BTreeSet<&String> = list.iter().collect();
                    if uniq.len() != list.len() {
                        let mut rep = case.replay();
                        rep["observed"] = json!({"vertex": vid, "required_properties": list, "list_obtained_through": how});
                        ctx.fail("required-properties-duplicate", "a required-properties list names a property twice", rep);
                    }
                }
            }
            if *probe.calls.borrow() > 6 {
                samples.lock().unwrap().offer(|| json!({"query_text": case.cq.text, "dataset": case.ds.name, "resolve_property_calls": *probe.calls.borrow(), "distinct_vertex_property_pairs": probe.seen.borrow().len()}));
            }
        },
        &|_, _| {},
    );
    let mut c = cov();
    c.insert("evaluations".into(), json!(calls.load(Ordering::Relaxed)));
    c.insert("distinct_nontrivial".into(), json!(distinct.lock().unwrap().len()));
    c.insert("rule".into(), json!("every resolve_property call of every (query, dataset) case of the enumerated space is checked against ResolveInfo::required_properties() (membership and no duplicates), and every list reported for that vertex through any other hint object (the destination of the edge being resolved, look-ahead along unresolved edges up to 3 levels from every call's info) must contain the requested property too; distinct = distinct (query, vertex id, property) triples seen in a call"));
    c.insert("lists_checked".into(), json!(lists_checked.load(Ordering::Relaxed)));
    c.insert("corpus".into(), stats.to_json());
    c.insert("samples".into(), json!(samples.lock().unwrap().items));
    c.insert("exhaustive".into(), json!(!stats.capped));
    ctx.finish("exploration", c, vec!["calls are observed only where data flows; datasets are chosen so that every query vertex is reached in at least one of them for most queries".into()])
}
