//! C06 — candidate intersection / normalisation / exclusion are exact set operations.
//! Explicit-state search: states are candidate values (canonical Debug form), transitions call
//! the real `intersect`, `normalize`, `exclude_single_value`; every transition is compared with a
//! reference denotation (bitmask over a probe universe, integers through i128).

use std::{
    cmp::Ordering,
    collections::{BTreeMap, BTreeSet, VecDeque},
    ops::Bound,
};

use serde_json::{json, Value};
use trustfall_core::{
    interpreter::{CandidateValue as CV, Range},
    ir::FieldValue as FV,
};

use crate::{
    common::{catch, cov, Ctx, Samples, Tier},
    values::{self, i, ref_cmp, ref_eq, s, show, u},
};

type C = CV<FV>;

struct Sort {
    name: &'static str,
    /// candidate member values (null first)
    values: Vec<FV>,
    /// non-null bound values
    bounds: Vec<FV>,
    /// probe universe: every member value plus one value inside every non-empty gap
    probes: Vec<FV>,
}

fn sorts() -> Vec<Sort> {
    let int_vals = vec![
        FV::Null,
        i(i64::MIN),
        i(-1),
        i(0),
        u(0),
        i(1),
        u(1),
        i(2),
        i(i64::MAX),
        u(i64::MAX as u64 + 1),
        u(u64::MAX),
    ];
    let mut int_probes = int_vals.clone();
    int_probes.extend([i(-5), i(3), u(3), u(i64::MAX as u64 + 2), u(i64::MAX as u64), u(2)]);
    let str_vals = vec![FV::Null, s(""), s("a"), s("b")];
    let mut str_probes = str_vals.clone();
    str_probes.extend([s("A"), s("aa"), s("c")]);
    // floats: -0.0 and 0.0 are equal values with different representations
    let f = FV::Float64;
    let float_vals = vec![FV::Null, f(-1.5), f(-0.0), f(0.0), f(1.5), f(f64::MAX)];
    let mut float_probes = float_vals.clone();
    float_probes.extend([f(-2.0), f(-1.0), f(0.5), f(2.0), f(f64::MIN_POSITIVE)]);
    let bool_vals = vec![FV::Null, FV::Boolean(false), FV::Boolean(true)];
    vec![
        Sort { name: "int", bounds: int_vals[1..].to_vec(), values: int_vals, probes: int_probes },
        Sort { name: "string", bounds: str_vals[1..].to_vec(), values: str_vals, probes: str_probes },
        Sort { name: "float", bounds: float_vals[1..].to_vec(), values: float_vals, probes: float_probes },
        Sort { name: "boolean", bounds: bool_vals[1..].to_vec(), values: bool_vals.clone(), probes: bool_vals },
    ]
}

fn bound_ok_lower(b: Bound<&FV>, p: &FV) -> bool {
    match b {
        Bound::Unbounded => true,
        Bound::Included(x) => matches!(ref_cmp(x, p), Some(Ordering::Less | Ordering::Equal)),
        Bound::Excluded(x) => matches!(ref_cmp(x, p), Some(Ordering::Less)),
    }
}
fn bound_ok_upper(b: Bound<&FV>, p: &FV) -> bool {
    match b {
        Bound::Unbounded => true,
        Bound::Included(x) => matches!(ref_cmp(p, x), Some(Ordering::Less | Ordering::Equal)),
        Bound::Excluded(x) => matches!(ref_cmp(p, x), Some(Ordering::Less)),
    }
}

/// Reference denotation: which probes the candidate contains.
fn den(c: &C, probes: &[FV]) -> u64 {
    let mut m = 0u64;
    for (k, p) in probes.iter().enumerate() {
        let inside = match c {
            CV::Impossible => false,
            CV::All => true,
            CV::Single(v) => ref_eq(v, p),
            CV::Multiple(vs) => vs.iter().any(|v| ref_eq(v, p)),
            CV::Range(r) => {
                if matches!(p, FV::Null) {
                    r.null_included()
                } else {
                    bound_ok_lower(r.start_bound(), p) && bound_ok_upper(r.end_bound(), p)
                }
            }
            _ => unreachable!("non_exhaustive CandidateValue variant"),
        };
        if inside {
            m |= 1 << k;
        }
    }
    m
}

/// Reference membership of a single value (used by the pruning adapter of C04).
pub fn cand_contains(c: &C, v: &FV) -> bool {
    den(c, std::slice::from_ref(v)) == 1
}

fn canon(c: &C) -> String {
    format!("{c:?}")
}

fn cjson(c: &C) -> Value {
    let b = |b: Bound<&FV>| match b {
        Bound::Unbounded => json!("unbounded"),
        Bound::Included(x) => json!({"included": show(x)}),
        Bound::Excluded(x) => json!({"excluded": show(x)}),
    };
    match c {
        CV::Impossible => json!("Impossible"),
        CV::All => json!("All"),
        CV::Single(v) => json!({"Single": show(v)}),
        CV::Multiple(vs) => json!({"Multiple": vs.iter().map(show).collect::<Vec<_>>()}),
        CV::Range(r) => json!({"Range": {"start": b(r.start_bound()), "end": b(r.end_bound()), "null_included": r.null_included()}}),
        _ => json!("?"),
    }
}

fn seeds(sort: &Sort) -> Vec<C> {
    let mut out: Vec<C> = vec![CV::Impossible, CV::All];
    for v in &sort.values {
        out.push(CV::Single(v.clone()));
    }
    let n = sort.values.len();
    out.push(CV::Multiple(vec![]));
    for a in 0..n {
        out.push(CV::Multiple(vec![sort.values[a].clone()]));
        for b in a + 1..n {
            out.push(CV::Multiple(vec![sort.values[a].clone(), sort.values[b].clone()]));
            // both orders: Multiple preserves order and intersect must not care
            out.push(CV::Multiple(vec![sort.values[b].clone(), sort.values[a].clone()]));
            for c in b + 1..n {
                out.push(CV::Multiple(vec![sort.values[a].clone(), sort.values[b].clone(), sort.values[c].clone()]));
            }
        }
    }
    let mut bs: Vec<Bound<FV>> = vec![Bound::Unbounded];
    for b in &sort.bounds {
        bs.push(Bound::Included(b.clone()));
        bs.push(Bound::Excluded(b.clone()));
    }
    for st in &bs {
        for en in &bs {
            for nl in [false, true] {
                out.push(CV::Range(Range::verif_new(st.clone(), en.clone(), nl)));
            }
        }
    }
    out
}

pub fn run(ctx: &Ctx) -> ! {
    let thorough = ctx.tier == Tier::Thorough;
    let mut samples = Samples::new(5);
    let mut states_total = 0u64;
    let mut transitions = 0u64;
    let mut distinct_outcomes: BTreeSet<String> = BTreeSet::new();
    let mut nontrivial = 0u64;
    let mut per_sort = BTreeMap::new();
    let mut max_depth_done = 0;
    let mut isect_n = 0u64;
    let mut capped = false;

    for sort in sorts() {
        let seedv = seeds(&sort);
        let probes = &sort.probes;
        assert!(probes.len() <= 64);
        // Range::contains (public API) against the reference denotation, and representation
        // independence of integers (Int64(k) and Uint64(k) are the same value).
        for c in &seedv {
            if let CV::Range(r) = c {
                for (k, p) in probes.iter().enumerate() {
                    transitions += 1;
                    let want = den(c, probes) >> k & 1 == 1;
                    match catch(|| r.contains(p)) {
                        Ok(got) if got == want => {}
                        Ok(got) => ctx.fail("range-contains-wrong", "Range::contains disagrees with the reference", json!({"candidate": cjson(c), "probe": show(p), "expected": want, "observed": got})),
                        Err(pn) => ctx.fail(&pn.key(), "Range::contains panicked", json!({"candidate": cjson(c), "probe": show(p), "panic": pn.to_json()})),
                    }
                }
            }
        }

        let mut seen: BTreeMap<String, (C, usize)> = BTreeMap::new();
        let mut frontier: VecDeque<String> = VecDeque::new();
        for c in &seedv {
            let k = canon(c);
            if !seen.contains_key(&k) {
                seen.insert(k.clone(), (c.clone(), 0));
                frontier.push_back(k);
            }
        }
        let n_seeds = seen.len();
        let max_depth = if thorough { 3 } else { 1 };
        while let Some(key) = frontier.pop_front() {
            let (a, depth) = seen[&key].clone();
            if depth >= max_depth {
                continue;
            }
            if ctx.elapsed() > ctx.budget_s() {
                capped = true;
                break;
            }
            max_depth_done = max_depth_done.max(depth + 1);
            let da = den(&a, probes);
            let mut step = |label: &str, operand: Value, result: Result<C, crate::common::PanicRec>, check: &dyn Fn(u64) -> bool, expect: String, seen: &mut BTreeMap<String, (C, usize)>, frontier: &mut VecDeque<String>| {
                transitions += 1;
                match result {
                    Err(p) => ctx.fail(&p.key(), &format!("{label} panicked"), json!({"sort": sort.name, "op": label, "self": cjson(&a), "operand": operand, "panic": p.to_json()})),
                    Ok(c) => {
                        let dc = den(&c, probes);
                        if !check(dc) {
                            ctx.fail(
                                &format!("{label}-not-exact"),
                                &format!("{label} result does not denote {expect}"),
                                json!({"sort": sort.name, "op": label, "self": cjson(&a), "operand": operand, "result": cjson(&c),
                                       "probes": probes.iter().map(show).collect::<Vec<_>>(), "den_self": format!("{da:b}"), "den_result": format!("{dc:b}")}),
                            );
                        }
                        distinct_outcomes.insert(format!("{label}:{dc:x}"));
                        let k = canon(&c);
                        if !seen.contains_key(&k) {
                            seen.insert(k.clone(), (c, depth + 1));
                            frontier.push_back(k);
                        }
                    }
                }
            };

            // normalize
            let r = catch(|| {
                let mut x = a.clone();
                x.verif_normalize();
                x
            });
            step("normalize", Value::Null, r, &|dc| dc == da, "the same set".into(), &mut seen, &mut frontier);

            // exclude each value
            for v in &sort.values {
                let r = catch(|| {
                    let mut x = a.clone();
                    x.verif_exclude_single_value(v);
                    x
                });
                let dv = den(&CV::Single(v.clone()), probes);
                step("exclude", show(v), r, &|dc| (da & !dv) & !dc == 0 && dc & !da == 0, "a set between self minus the value and self".into(), &mut seen, &mut frontier);
            }

            // intersect with every seed (both operand orders are reached because every seed is a state)
            for b in &seedv {
                let db = den(b, probes);
                if da & db != 0 && da != db {
                    nontrivial += 1;
                }
                let r = catch(|| {
                    let mut x = a.clone();
                    x.verif_intersect(b.clone());
                    x
                });
                isect_n += 1;
                if isect_n % 200_003 == 0 {
                    if let Ok(c) = &r {
                        let c = c.clone();
                        samples.offer(|| json!({"sort": sort.name, "self": cjson(&a), "intersect_with": cjson(b), "result": cjson(&c)}));
                    }
                }
                step("intersect", cjson(b), r, &|dc| dc == da & db, "exactly the common values".into(), &mut seen, &mut frontier);
            }
        }
        states_total += seen.len() as u64;
        per_sort.insert(sort.name, json!({"seeds": n_seeds, "states": seen.len(), "probes": probes.len()}));
    }

    let mut c = cov();
    c.insert("states".into(), json!(states_total));
    c.insert("transitions".into(), json!(transitions));
    c.insert("traces_validated_against_impl".into(), json!(transitions));
    c.insert("evaluations".into(), json!(transitions));
    c.insert("distinct_nontrivial".into(), json!(nontrivial));
    c.insert("distinct_outcomes".into(), json!(distinct_outcomes.len()));
    c.insert("rule".into(), json!("states = distinct candidate values reached (canonical Debug form); transitions = real intersect(seed) / exclude_single_value(v) / normalize calls plus Range::contains probes; every transition executes the implementation and is compared with a reference denotation over the probe universe; non-trivial = intersect transitions whose operands overlap partially"));
    c.insert("per_sort".into(), json!(per_sort));
    c.insert("bfs_depth_completed".into(), json!(max_depth_done));
    c.insert("samples".into(), json!(samples.items));
    c.insert("exhaustive".into(), json!(!capped));
    c.insert("cap_hit".into(), json!(capped));
    ctx.finish(
        "model_checking",
        c,
        vec![
            "membership of a bound-alphabet-built set is constant on each cell of the partition induced by the bound alphabet; the probe universe has one value in every non-empty cell (argument in DESIGN.md C06)".into(),
            "integer and string candidates are explored as separate sorts (a property has one type)".into(),
        ],
    )
}
