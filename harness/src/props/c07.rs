//! C07 — every @filter operator decides exactly its documented definition.
//! Layer (a): the operator functions themselves (guarded hook), exhaustively over all operand
//! pairs a type-checked query can produce from the boundary alphabet.
//! Layer (b): the same pairs end-to-end through a query (variable and tag operands), so that the
//! wiring from `Operation::X` to the function (and every `not!`) is decided too.

use std::{cmp::Ordering, collections::BTreeSet};

use serde_json::{json, Value};
use trustfall_core::{interpreter::verif_filtering as vf, ir::FieldValue as FV};

use crate::{
    common::{catch, cov, Ctx, Samples, Tier},
    values::{self, kind, lists_over, ref_cmp, ref_eq, show, Kind},
};

#[derive(Clone, Copy, Debug, PartialEq, Eq, PartialOrd, Ord)]
pub enum TyK {
    Int,
    Float,
    Str,
    Bool,
    LInt,
    LFloat,
    LStr,
    LBool,
}

impl TyK {
    pub fn all() -> [TyK; 8] {
        [TyK::Int, TyK::Float, TyK::Str, TyK::Bool, TyK::LInt, TyK::LFloat, TyK::LStr, TyK::LBool]
    }
    pub fn elem(&self) -> Option<TyK> {
        match self {
            TyK::LInt => Some(TyK::Int),
            TyK::LFloat => Some(TyK::Float),
            TyK::LStr => Some(TyK::Str),
            TyK::LBool => Some(TyK::Bool),
            _ => None,
        }
    }
    pub fn list_of(&self) -> Option<TyK> {
        match self {
            TyK::Int => Some(TyK::LInt),
            TyK::Float => Some(TyK::LFloat),
            TyK::Str => Some(TyK::LStr),
            TyK::Bool => Some(TyK::LBool),
            _ => None,
        }
    }
    pub fn orderable(&self) -> bool {
        !matches!(self, TyK::Bool | TyK::LBool)
    }
    pub fn gql(&self) -> &'static str {
        match self {
            TyK::Int => "Int",
            TyK::Float => "Float",
            TyK::Str => "String",
            TyK::Bool => "Boolean",
            TyK::LInt => "[Int]",
            TyK::LFloat => "[Float]",
            TyK::LStr => "[String]",
            TyK::LBool => "[Boolean]",
        }
    }
}

fn scalars(t: TyK, thorough: bool) -> Vec<FV> {
    match t {
        TyK::Int => values::ints(),
        TyK::Float => values::floats(),
        TyK::Str => {
            let mut v = values::strings();
            v.push(values::s("("));
            v.push(values::s("a.*"));
            if thorough {
                v.push(values::s("^$"));
                v.push(values::s("A"));
            }
            v
        }
        TyK::Bool => values::bools(),
        _ => unreachable!(),
    }
}

/// Non-null values of type `t` (lists: up to length 2, with null elements, mixed Int64/Uint64).
pub fn non_null_values(t: TyK, thorough: bool) -> Vec<FV> {
    match t.elem() {
        None => scalars(t, thorough),
        Some(e) => {
            // a reduced element alphabet keeps the list space small but keeps every boundary
            let base: Vec<FV> = match e {
                TyK::Int => {
                    if thorough {
                        values::ints()
                    } else {
                        vec![values::i(i64::MIN), values::i(-1), values::i(1), values::u(1), values::u(2), values::u(u64::MAX)]
                    }
                }
                TyK::Float => vec![FV::Float64(-0.0), FV::Float64(0.0), FV::Float64(1.5)],
                TyK::Str => vec![values::s(""), values::s("a"), values::s("b")],
                TyK::Bool => values::bools(),
                _ => unreachable!(),
            };
            lists_over(&base, 2, true)
        }
    }
}

pub fn values_of(t: TyK, thorough: bool) -> Vec<FV> {
    let mut v = vec![FV::Null];
    v.extend(non_null_values(t, thorough));
    v
}

pub const BINARY_OPS: [&str; 18] = [
    "=", "!=", "<", "<=", ">", ">=", "one_of", "not_one_of", "contains", "not_contains", "has_prefix", "not_has_prefix",
    "has_suffix", "not_has_suffix", "has_substring", "not_has_substring", "regex", "not_regex",
];

fn has_null_elem(v: &FV) -> bool {
    match v {
        FV::List(xs) => xs.iter().any(|x| matches!(x, FV::Null) || has_null_elem(x)),
        _ => false,
    }
}

/// Reference definition (docs/docs/language_reference/querying/filter.md + the property text).
/// `None` = the documentation does not define this pair (ordering of lists with null elements).
pub fn reference(op: &str, l: &FV, r: &FV) -> Option<bool> {
    let neg = |x: Option<bool>| x.map(|b| !b);
    Some(match op {
        "=" => ref_eq(l, r),
        "!=" => !ref_eq(l, r),
        "<" | "<=" | ">" | ">=" => {
            if matches!(l, FV::Null) || matches!(r, FV::Null) {
                return Some(false);
            }
            if has_null_elem(l) || has_null_elem(r) {
                return None;
            }
            let c = ref_cmp(l, r)?;
            match op {
                "<" => c == Ordering::Less,
                "<=" => c != Ordering::Greater,
                ">" => c == Ordering::Greater,
                _ => c != Ordering::Less,
            }
        }
        "one_of" => match r {
            FV::Null => false,
            FV::List(xs) => xs.iter().any(|x| ref_eq(l, x)),
            _ => return None,
        },
        "contains" => match l {
            FV::Null => false,
            FV::List(xs) => xs.iter().any(|x| ref_eq(x, r)),
            _ => return None,
        },
        "has_prefix" | "has_suffix" | "has_substring" | "regex" => match (l, r) {
            (FV::String(a), FV::String(b)) => match op {
                "has_prefix" => a.starts_with(b.as_ref()),
                "has_suffix" => a.ends_with(b.as_ref()),
                "has_substring" => a.contains(b.as_ref()),
                _ => regex::Regex::new(b).map(|p| p.is_match(a)).unwrap_or(false),
            },
            _ => false,
        },
        "not_one_of" => return neg(reference("one_of", l, r)),
        "not_contains" => return neg(reference("contains", l, r)),
        "not_has_prefix" => return neg(reference("has_prefix", l, r)),
        "not_has_suffix" => return neg(reference("has_suffix", l, r)),
        "not_has_substring" => return neg(reference("has_substring", l, r)),
        "not_regex" => return neg(reference("regex", l, r)),
        "is_null" => matches!(l, FV::Null),
        "is_not_null" => !matches!(l, FV::Null),
        _ => return None,
    })
}

/// All (left type, left values, right values) domains for `op` that a type-checked query over
/// schema-conforming data can produce. Right-hand nulls arise through nullable tags.
pub fn domains(op: &str, thorough: bool) -> Vec<(TyK, Vec<FV>, Vec<FV>)> {
    let mut out = vec![];
    match op {
        "=" | "!=" => {
            for t in TyK::all() {
                out.push((t, values_of(t, thorough), values_of(t, thorough)));
            }
        }
        "<" | "<=" | ">" | ">=" => {
            for t in TyK::all() {
                if t.orderable() {
                    out.push((t, values_of(t, thorough), values_of(t, thorough)));
                }
            }
        }
        "one_of" | "not_one_of" => {
            for t in [TyK::Int, TyK::Float, TyK::Str, TyK::Bool] {
                out.push((t, values_of(t, thorough), values_of(t.list_of().unwrap(), thorough)));
            }
        }
        "contains" | "not_contains" => {
            for t in [TyK::LInt, TyK::LFloat, TyK::LStr, TyK::LBool] {
                out.push((t, values_of(t, thorough), values_of(t.elem().unwrap(), thorough)));
            }
        }
        _ => out.push((TyK::Str, values_of(TyK::Str, thorough), values_of(TyK::Str, thorough))),
    }
    out
}

/// The positive-form function behind `op`, and whether the engine negates it.
fn call_engine(op: &str, l: &FV, r: &FV) -> bool {
    match op {
        "=" => vf::equals(l, r),
        "!=" => !vf::equals(l, r),
        "<" => vf::less_than(l, r),
        "<=" => vf::less_than_or_equal(l, r),
        ">" => vf::greater_than(l, r),
        ">=" => vf::greater_than_or_equal(l, r),
        "one_of" => vf::one_of(l, r),
        "not_one_of" => !vf::one_of(l, r),
        "contains" => vf::contains(l, r),
        "not_contains" => !vf::contains(l, r),
        "has_prefix" => vf::has_prefix(l, r),
        "not_has_prefix" => !vf::has_prefix(l, r),
        "has_suffix" => vf::has_suffix(l, r),
        "not_has_suffix" => !vf::has_suffix(l, r),
        "has_substring" => vf::has_substring(l, r),
        "not_has_substring" => !vf::has_substring(l, r),
        "regex" => vf::regex_matches_slow_path(l, r),
        "not_regex" => !vf::regex_matches_slow_path(l, r),
        _ => unreachable!(),
    }
}

/// Failure class for list-typed ordering operands (one known defect, whatever the element type).
pub fn failure_key(op: &str, l: &FV, r: &FV, panicked: bool) -> String {
    let list_ordering = matches!(op, "<" | "<=" | ">" | ">=") && (kind(l) == Kind::List || kind(r) == Kind::List);
    if panicked && list_ordering {
        "ordering-on-list-operands-panics".to_string()
    } else if panicked {
        format!("op-panics:{op}")
    } else {
        format!("op-wrong:{op}")
    }
}

pub struct LayerStats {
    pub evaluations: u64,
    pub distinct: BTreeSet<(String, String, String)>,
    pub undefined_pairs: u64,
    pub true_results: u64,
    pub false_results: u64,
    pub history_sequences: u64,
}

pub fn function_layer(ctx: &Ctx, samples: &mut Samples) -> LayerStats {
    let thorough = ctx.tier == Tier::Thorough;
    let mut st = LayerStats { evaluations: 0, distinct: BTreeSet::new(), undefined_pairs: 0, true_results: 0, false_results: 0, history_sequences: 0 };
    for op in BINARY_OPS {
        for (t, ls, rs) in domains(op, thorough) {
            for l in &ls {
                for r in &rs {
                    st.evaluations += 1;
                    let expected = reference(op, l, r);
                    let got = catch(|| call_engine(op, l, r));
                    let rep = |got: Value| json!({"layer": "function", "op": op, "left_type": t.gql(), "left": show(l), "right": show(r), "expected": expected, "observed": got});
                    match (expected, got) {
                        (None, _) => st.undefined_pairs += 1,
                        (Some(e), Ok(g)) => {
                            if g {
                                st.true_results += 1
                            } else {
                                st.false_results += 1
                            }
                            st.distinct.insert((op.to_string(), values::canon(l), values::canon(r)));
                            if e != g {
                                ctx.fail(&failure_key(op, l, r, false), &format!("operator {op} returned {g}, definition says {e}"), rep(json!(g)));
                            }
                            if st.evaluations % 9973 == 0 {
                                samples.offer(|| rep(json!(g)));
                            }
                        }
                        (Some(_), Err(p)) => {
                            st.distinct.insert((op.to_string(), values::canon(l), values::canon(r)));
                            ctx.fail(&failure_key(op, l, r, true), &format!("operator {op} panicked: {}", p.message.lines().next().unwrap_or("")), rep(p.to_json()));
                        }
                    }
                }
            }
        }
    }
    history_layer(ctx, &mut st, thorough);
    // the precompiled-regex fast path used for variable operands
    for l in values_of(TyK::Str, thorough) {
        for r in non_null_values(TyK::Str, thorough) {
            if let (FV::String(pat), Ok(re)) = (&r, regex::Regex::new(r.as_str().unwrap())) {
                st.evaluations += 1;
                let e = reference("regex", &l, &r).unwrap();
                match catch(|| vf::regex_matches_optimized(&l, &re)) {
                    Ok(g) if g == e => {}
                    Ok(g) => ctx.fail("op-wrong:regex-optimized", "precompiled regex path disagrees with definition", json!({"layer":"function","op":"regex(optimized)","left":show(&l),"right":pat.as_ref(),"expected":e,"observed":g})),
                    Err(p) => ctx.fail("op-panics:regex-optimized", "precompiled regex path panicked", json!({"layer":"function","op":"regex(optimized)","left":show(&l),"right":pat.as_ref(),"panic":p.to_json()})),
                }
            }
        }
    }
    st
}

/// Reduced operand alphabet for call *sequences*: null + a few values spread over the boundary alphabet;
/// strings chosen so that valid, invalid and matching / non-matching patterns all occur.
fn history_alphabet(t: TyK, vals: &[FV], right: bool, thorough: bool) -> Vec<FV> {
    if t == TyK::Str && vals.iter().all(|v| matches!(v, FV::Null | FV::String(_))) {
        let mut v: Vec<FV> = if right { vec![FV::Null, values::s("a"), values::s("("), values::s("a.*"), values::s("^b")] } else { vec![FV::Null, values::s(""), values::s("a"), values::s("ab")] };
        if thorough {
            v.push(values::s(if right { "[z" } else { "ba" }));
        }
        return v;
    }
    let non_null: Vec<&FV> = vals.iter().filter(|v| !matches!(v, FV::Null)).collect();
    let want = if thorough { 6 } else { 4 };
    let mut out = vec![FV::Null];
    if !non_null.is_empty() {
        for k in 0..want.min(non_null.len()) {
            let idx = k * (non_null.len() - 1) / (want.min(non_null.len()) - 1).max(1);
            let v = non_null[idx].clone();
            if !out.contains(&v) {
                out.push(v);
            }
        }
    }
    out
}

/// "The result depends only on the two operands": every sequence of three consecutive calls of one
/// operator over the reduced alphabet (so any state a call leaves behind — a cached pattern, a
/// reused buffer — meets every next operand pair), each call compared with the definition.
fn history_layer(ctx: &Ctx, st: &mut LayerStats, thorough: bool) {
    for op in BINARY_OPS {
        for (t, ls, rs) in domains(op, thorough) {
            let la = history_alphabet(t, &ls, false, thorough);
            let ra = history_alphabet(t, &rs, true, thorough);
            let pairs: Vec<(FV, FV, bool)> = la.iter().flat_map(|l| ra.iter().map(move |r| (l.clone(), r.clone()))).filter_map(|(l, r)| reference(op, &l, &r).map(|e| (l, r, e))).collect();
            // pairs the engine gets wrong or panics on in isolation are the single-call layer's business
            let pairs: Vec<(FV, FV, bool)> = pairs.into_iter().filter(|(l, r, e)| matches!(catch(|| call_engine(op, l, r)), Ok(g) if g == *e)).collect();
            for a in &pairs {
                for b in &pairs {
                    for c in &pairs {
                        st.history_sequences += 1;
                        for (step, x) in [a, b, c].into_iter().enumerate() {
                            st.evaluations += 1;
                            let got = catch(|| call_engine(op, &x.0, &x.1));
                            if !matches!(got, Ok(g) if g == x.2) {
                                let seq: Vec<Value> = [a, b, c].iter().map(|y| json!({"left": show(&y.0), "right": show(&y.1), "expected": y.2})).collect();
                                ctx.fail(
                                    &format!("op-result-depends-on-call-history:{op}"),
                                    &format!("operator {op} gave a different result for the same operands after other calls"),
                                    json!({"layer": "function-history", "op": op, "left_type": t.gql(), "call_sequence": seq, "failing_step": step, "observed": match got { Ok(g) => json!(g), Err(p) => p.to_json() }}),
                                );
                            }
                        }
                    }
                }
            }
        }
    }
}

pub fn run(ctx: &Ctx) -> ! {
    let mut samples = Samples::new(5);
    let a = function_layer(ctx, &mut samples);
    let b = crate::props::c07_wiring::wiring_layer(ctx, &mut samples);
    let mut c = cov();
    c.insert("evaluations".into(), json!(a.evaluations + b.evaluations));
    c.insert("distinct_nontrivial".into(), json!(a.distinct.len()));
    c.insert(
        "rule".into(),
        json!("layer (a): every (operator, left, right) with operands from the boundary alphabet restricted to pairs a type-checked query can produce; distinct = distinct (operator, left value, right value) triples whose result the documentation defines. layer (b): the same scalar/list pairs sent through a real query with the right operand as a variable and as a tag; counted separately in wiring_*. layer (a'): every sequence of three consecutive calls of each operator over a reduced operand alphabet, each call compared with the definition (results must not depend on earlier calls)"),
    );
    c.insert("function_layer".into(), json!({"evaluations": a.evaluations, "defined_distinct": a.distinct.len(), "undefined_by_docs_skipped": a.undefined_pairs, "true_results": a.true_results, "false_results": a.false_results, "three_call_sequences": a.history_sequences}));
    c.insert("wiring_layer".into(), json!({"evaluations": b.evaluations, "queries_compiled": b.queries, "true_results": b.true_results, "false_results": b.false_results, "rejected_by_arg_validation": b.rejected}));
    c.insert("samples".into(), json!(samples.items));
    c.insert("exhaustive".into(), json!(true));
    ctx.finish(
        "exploration",
        c,
        vec![
            "operand pairs are restricted to those a type-checked query over schema-conforming data can produce (other pairs are documented unreachable)".into(),
            "ordering of lists that contain null elements is not defined by the documentation and is skipped".into(),
            "reference regex semantics use the same regex crate (pattern validity and matching are not re-implemented)".into(),
        ],
    )
}
