//! C07 layer (b): operand pairs end-to-end through a compiled query, right operand supplied once
//! as a variable and once through a tag. Decides the Operation -> function wiring and each `not!`.

use std::{collections::BTreeMap, sync::Arc};

use serde_json::json;
use trustfall_core::ir::FieldValue as FV;

use crate::{
    common::{Ctx, Samples, Tier},
    dataset::{Dataset, World},
    engine::{self, Compiled, Exec},
    graph_adapter::GraphAdapter,
    props::c07::{domains, failure_key, reference, TyK, BINARY_OPS},
    schema_model::SchemaModel,
    values::{self, show},
};

pub const SOPS_TEXT: &str = r#"
schema { query: Root }
directive @filter(op: String!, value: [String!]) repeatable on FIELD | INLINE_FRAGMENT
directive @tag(name: String) repeatable on FIELD
directive @output(name: String) repeatable on FIELD
directive @optional on FIELD
directive @recurse(depth: Int!) on FIELD
directive @fold on FIELD
directive @transform(op: String!) repeatable on FIELD
type Root { T: [T!]! }
type T {
    id: Int!
    i1: Int  i2: Int
    f1: Float  f2: Float
    s1: String  s2: String
    b1: Boolean  b2: Boolean
    li1: [Int]  li2: [Int]
    lf1: [Float]  lf2: [Float]
    ls1: [String]  ls2: [String]
    lb1: [Boolean]  lb2: [Boolean]
}
"#;

pub fn prop_name(t: TyK, which: u8) -> String {
    let p = match t {
        TyK::Int => "i",
        TyK::Float => "f",
        TyK::Str => "s",
        TyK::Bool => "b",
        TyK::LInt => "li",
        TyK::LFloat => "lf",
        TyK::LStr => "ls",
        TyK::LBool => "lb",
    };
    format!("{p}{which}")
}

/// Type of the right operand for (op, left type).
pub fn right_type(op: &str, left: TyK) -> TyK {
    match op {
        "one_of" | "not_one_of" => left.list_of().unwrap(),
        "contains" | "not_contains" => left.elem().unwrap(),
        _ => left,
    }
}

pub struct WiringStats {
    pub evaluations: u64,
    pub queries: u64,
    pub true_results: u64,
    pub false_results: u64,
    pub rejected: u64,
}

pub fn wiring_layer(ctx: &Ctx, samples: &mut Samples) -> WiringStats {
    let thorough = ctx.tier == Tier::Thorough;
    let schema = engine::parse_schema(SOPS_TEXT);
    let world = Arc::new(World::generic(Arc::new(SchemaModel::parse(SOPS_TEXT))));
    let mut st = WiringStats { evaluations: 0, queries: 0, true_results: 0, false_results: 0, rejected: 0 };

    let run_one = |q: &Arc<trustfall_core::ir::IndexedQuery>, left_prop: &str, right_prop: Option<&str>, l: &FV, r: &FV, args: &engine::Args| -> Exec {
        let mut ds = Dataset::new("one");
        let mut props = vec![("id", values::i(0)), (left_prop, l.clone())];
        if let Some(rp) = right_prop {
            props.push((rp, r.clone()));
        }
        ds.add("T", props);
        let adapter = Arc::new(GraphAdapter::new(world.clone(), Arc::new(ds)));
        engine::execute(adapter, q.clone(), args)
    };

    for op in BINARY_OPS {
        for (lt, ls, rs) in domains(op, thorough) {
            let rt = right_type(op, lt);
            let lp = prop_name(lt, 1);
            let rp = prop_name(rt, 2);
            let q_var = format!("{{ T {{ {lp} @filter(op: \"{op}\", value: [\"$r\"]) id @output }} }}");
            let q_tag = format!("{{ T {{ {rp} @tag(name: \"r\") {lp} @filter(op: \"{op}\", value: [\"%r\"]) id @output }} }}");
            for (source, text) in [("variable", &q_var), ("tag", &q_tag)] {
                let q = match engine::compile(&schema, text) {
                    Compiled::Ok(q) => q,
                    Compiled::Err(e) => crate::common::machinery(&format!("C07 wiring query rejected: {text}: {e}")),
                    Compiled::Panic(p) => {
                        ctx.fail(&p.key(), "frontend panicked on a plain filter query", json!({"query": text, "panic": p.to_json()}));
                        continue;
                    }
                };
                st.queries += 1;
                for l in &ls {
                    for r in &rs {
                        let expected = match reference(op, l, r) {
                            Some(e) => e,
                            None => continue,
                        };
                        let mut args: engine::Args = BTreeMap::new();
                        if source == "variable" {
                            args.insert("r".into(), r.clone());
                        }
                        st.evaluations += 1;
                        let out = run_one(&q, &lp, if source == "tag" { Some(&rp) } else { None }, l, r, &args);
                        let rep = |o: &Exec| json!({"layer": "wiring", "operand_source": source, "query": text, "op": op, "left": show(l), "right": show(r), "expected_row_kept": expected, "observed": engine::exec_json(o)});
                        match &out {
                            Exec::ArgError(_) => st.rejected += 1,
                            Exec::Rows(rows) => {
                                let kept = rows.len() == 1;
                                if kept {
                                    st.true_results += 1
                                } else {
                                    st.false_results += 1
                                }
                                if rows.len() > 1 || kept != expected {
                                    ctx.fail(&failure_key(op, l, r, false), &format!("query filter {op} kept={kept}, definition says {expected} ({source} operand)"), rep(&out));
                                }
                                if st.evaluations % 20011 == 0 {
                                    samples.offer(|| rep(&out));
                                }
                            }
                            Exec::Panic { rec, .. } => {
                                // an invalid regex supplied as a *variable* is a separate known defect class
                                let key = if matches!(op, "regex" | "not_regex") && source == "variable" {
                                    "invalid-regex-variable-panics".to_string()
                                } else {
                                    failure_key(op, l, r, true)
                                };
                                ctx.fail(&key, &format!("query with filter {op} panicked: {}", rec.message.lines().next().unwrap_or("")), rep(&out));
                            }
                        }
                    }
                }
            }
        }
    }

    // unary operators
    for op in ["is_null", "is_not_null"] {
        for lt in TyK::all() {
            let lp = prop_name(lt, 1);
            let text = format!("{{ T {{ {lp} @filter(op: \"{op}\") id @output }} }}");
            let q = match engine::compile(&schema, &text) {
                Compiled::Ok(q) => q,
                _ => crate::common::machinery(&format!("C07 wiring query rejected: {text}")),
            };
            st.queries += 1;
            for l in crate::props::c07::values_of(lt, thorough) {
                st.evaluations += 1;
                let expected = reference(op, &l, &FV::Null).unwrap();
                let out = run_one(&q, &lp, None, &l, &FV::Null, &BTreeMap::new());
                match &out {
                    Exec::Rows(rows) if (rows.len() == 1) == expected => {
                        if expected {
                            st.true_results += 1
                        } else {
                            st.false_results += 1
                        }
                    }
                    _ => ctx.fail(&format!("op-wrong:{op}"), "unary filter disagrees with definition", json!({"layer":"wiring","query":text,"left":show(&l),"expected_row_kept":expected,"observed":engine::exec_json(&out)})),
                }
            }
        }
    }
    st
}
