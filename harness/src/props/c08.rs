//! C08 — FieldValue equality is an equivalence, ordering is a total order that agrees with
//! equality and with numeric order on integers. Exhaustive over all triples of the alphabet.

use std::cmp::Ordering;

use serde_json::json;
use trustfall_core::ir::FieldValue as FV;

use crate::{
    common::{catch, cov, Ctx, Samples},
    values::{self, int_of, kind, list, ref_eq, show, Kind},
};

pub fn alphabet(tier_thorough: bool) -> Vec<FV> {
    let mut w = vec![FV::Null];
    w.extend(values::bools());
    w.extend(values::ints());
    w.extend(values::floats());
    w.extend(values::strings());
    w.extend(values::enums());
    // nested lists to depth 2 (depth 3 and more elements in the thorough tier)
    let i1 = values::i(1);
    let u1 = values::u(1);
    let big = values::u(u64::MAX);
    let neg = values::i(-1);
    let mut lists = vec![
        list(vec![]),
        list(vec![FV::Null]),
        list(vec![i1.clone()]),
        list(vec![u1.clone()]),
        list(vec![values::i(2)]),
        list(vec![i1.clone(), values::i(2)]),
        list(vec![u1.clone(), values::u(2)]),
        list(vec![neg.clone(), big.clone()]),
        list(vec![big.clone(), neg.clone()]),
        list(vec![FV::Null, i1.clone()]),
        list(vec![values::s("a")]),
        list(vec![FV::Float64(1.5)]),
        list(vec![list(vec![])]),
        list(vec![list(vec![i1.clone()])]),
        list(vec![list(vec![u1.clone()])]),
        list(vec![list(vec![u1.clone()]), list(vec![])]),
    ];
    if tier_thorough {
        lists.extend(values::lists_over(&[i1.clone(), u1.clone(), neg.clone(), big.clone()], 2, true));
        lists.push(list(vec![list(vec![list(vec![i1.clone()])])]));
        lists.push(list(vec![list(vec![list(vec![u1.clone()])])]));
        lists.push(list(vec![values::s(""), values::s("a")]));
    }
    w.extend(lists);
    w
}

pub fn run(ctx: &Ctx) -> ! {
    let w = alphabet(ctx.tier == crate::common::Tier::Thorough);
    let n = w.len();
    let mut evaluations: u64 = 0;
    let mut nontrivial: u64 = 0;
    let mut samples = Samples::new(4);

    // pairwise tables, each call under catch_unwind (a panic is a violation of "total order on finite values")
    let mut eq = vec![vec![false; n]; n];
    let mut ord: Vec<Vec<Option<Ordering>>> = vec![vec![None; n]; n];
    for a in 0..n {
        for b in 0..n {
            match catch(|| (w[a] == w[b], w[a].partial_cmp(&w[b]))) {
                Ok((e, o)) => {
                    eq[a][b] = e;
                    ord[a][b] = o;
                }
                Err(p) => {
                    ctx.fail(&p.key(), "comparison panicked", json!({"a": show(&w[a]), "b": show(&w[b]), "panic": p.to_json()}));
                }
            }
        }
    }

    // unary / binary laws
    for a in 0..n {
        if !eq[a][a] {
            ctx.fail("eq-not-reflexive", "a == a is false", json!({"a": show(&w[a])}));
        }
        for b in 0..n {
            evaluations += 1;
            let rep = || json!({"a": show(&w[a]), "b": show(&w[b]), "eq": eq[a][b], "cmp": format!("{:?}", ord[a][b])});
            if eq[a][b] != eq[b][a] {
                ctx.fail("eq-not-symmetric", "a == b differs from b == a", rep());
            }
            if eq[a][b] != ref_eq(&w[a], &w[b]) {
                ctx.fail("eq-differs-from-reference", "== disagrees with the reference equality (numeric integers, element-wise lists)", rep());
            }
            match (ord[a][b], ord[b][a]) {
                (Some(x), Some(y)) => {
                    if x != y.reverse() {
                        ctx.fail("ord-not-antisymmetric", "cmp(a,b) is not the reverse of cmp(b,a)", rep());
                    }
                    if (x == Ordering::Equal) != eq[a][b] {
                        ctx.fail("ord-disagrees-with-eq", "cmp(a,b) == Equal does not coincide with a == b", rep());
                    }
                }
                _ => ctx.fail("ord-not-total", "partial_cmp returned None on finite values", rep()),
            }
            if let (Some(x), Some(y)) = (int_of(&w[a]), int_of(&w[b])) {
                if ord[a][b] != Some(x.cmp(&y)) {
                    ctx.fail("ord-int-not-numeric", "integer order differs from numeric order", rep());
                }
                if eq[a][b] != (x == y) {
                    ctx.fail("eq-int-not-numeric", "integer equality differs from numeric equality", rep());
                }
            }
        }
    }

    // ternary laws
    for a in 0..n {
        for b in 0..n {
            for c in 0..n {
                evaluations += 1;
                let kinds = [kind(&w[a]), kind(&w[b]), kind(&w[c])];
                let mixed_ints = [&w[a], &w[b], &w[c]].iter().any(|v| matches!(v, FV::Int64(_)))
                    && [&w[a], &w[b], &w[c]].iter().any(|v| matches!(v, FV::Uint64(_)));
                if mixed_ints || kinds.contains(&Kind::List) || (kinds[0] != kinds[1] || kinds[1] != kinds[2]) {
                    nontrivial += 1;
                }
                let rep = || json!({"a": show(&w[a]), "b": show(&w[b]), "c": show(&w[c])});
                if eq[a][b] && eq[b][c] && !eq[a][c] {
                    ctx.fail("eq-not-transitive", "a == b and b == c but a != c", rep());
                }
                let le = |x: Option<Ordering>| matches!(x, Some(Ordering::Less | Ordering::Equal));
                if le(ord[a][b]) && le(ord[b][c]) && !le(ord[a][c]) {
                    ctx.fail("ord-not-transitive", "a <= b and b <= c but not a <= c", rep());
                }
                if a < 2 && b == 13 && c == 20 {
                    samples.offer(rep);
                }
            }
        }
    }
    samples.offer(|| json!({"a": show(&w[1]), "b": show(&w[n / 2]), "c": show(&w[n - 1])}));
    samples.offer(|| json!({"alphabet": w.iter().map(show).collect::<Vec<_>>()}));

    let mut c = cov();
    c.insert("evaluations".into(), json!(evaluations));
    c.insert("distinct_nontrivial".into(), json!(nontrivial));
    c.insert("rule".into(), json!("all ordered pairs and triples over the value alphabet (null, booleans, Int64/Uint64 at every boundary, finite floats incl. -0.0, strings, enums, nested lists); a triple is non-trivial when it mixes value kinds, mixes Int64 with Uint64, or contains a list"));
    c.insert("alphabet_size".into(), json!(n));
    c.insert("samples".into(), json!(samples.items));
    c.insert("exhaustive".into(), json!(true));
    ctx.finish(
        "exploration",
        c,
        vec!["finite floats only (the engine asserts finiteness)".into(), "values outside the alphabet are represented by their boundary class".into()],
    )
}
