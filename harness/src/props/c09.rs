//! C09 — executing an accepted query never panics. Every case of the enumerated query space with
//! the *widened* argument domains (every value of the per-variable domains that argument
//! validation accepts: negative / huge fold-count arguments, invalid regex strings, empty and
//! null-containing lists, extreme integers) is executed under `catch_unwind` with three
//! contract-honouring adapters: the plain lazy adapter, an order-preserving batcher that always
//! pre-fetches everything, and the hint-driven pruner.

use std::{
    collections::BTreeSet,
    sync::{
        atomic::{AtomicU64, Ordering},
        Arc, Mutex,
    },
};

use serde_json::json;

use crate::{
    common::{cov, Ctx, Samples},
    corpus::{self, Case, CorpusCfg, Universe},
    engine::{self, Exec},
    explorer::Chooser,
    graph_adapter::GraphAdapter,
    props::{
        c02::ScheduledBatcher,
        c04::{Mode, Pruner},
    },
    qast, qgen,
};

#[derive(Default)]
pub struct Counters {
    pub runs: AtomicU64,
    pub rows: AtomicU64,
    pub arg_rejected: AtomicU64,
    pub cases: AtomicU64,
}

pub fn check_case(ctx: &Ctx, uni: &Universe, case: &Case<'_>, c: &Counters, samples: &Mutex<Samples>) {
    c.cases.fetch_add(1, Ordering::Relaxed);
    let mut outcomes: Vec<(&'static str, Exec)> = vec![];
    let plain = engine::execute(Arc::new(GraphAdapter::new(uni.world.clone(), case.ds.clone())), case.cq.iq.clone(), case.args);
    if let Exec::ArgError(_) = plain {
        c.arg_rejected.fetch_add(1, Ordering::Relaxed);
        return; // the engine did not accept the argument values: outside the property's premise
    }
    outcomes.push(("GraphAdapter", plain));
    let eager = Arc::new(ScheduledBatcher { inner: GraphAdapter::new(uni.world.clone(), case.ds.clone()), chooser: Chooser::constant(3) });
    outcomes.push(("ScheduledBatcher(always pre-fetch all)", engine::execute(eager, case.cq.iq.clone(), case.args)));
    outcomes.push(("Pruner(all hints)", engine::execute(Arc::new(Pruner::new(uni.world.clone(), case.ds.clone(), Mode::All)), case.cq.iq.clone(), case.args)));
    for (wrapper, out) in &outcomes {
        c.runs.fetch_add(1, Ordering::Relaxed);
        match out {
            Exec::Rows(r) => {
                c.rows.fetch_add(r.len() as u64, Ordering::Relaxed);
            }
            Exec::ArgError(_) => {}
            Exec::Panic { rec, .. } => {
                if !rec.in_engine() {
                    crate::common::machinery(&format!("panic inside the harness ({}:{}): {} -- query {}", rec.file, rec.line, rec.message, case.cq.text));
                }
                let mut rep = case.replay();
                rep["wrapper"] = json!(wrapper);
                rep["observed"] = engine::exec_json(out);
                rep["expected"] = json!("rows or end of iteration, no panic");
                ctx.fail(&rec.key(), &format!("engine panicked: {}", rec.message.lines().next().unwrap_or("")), rep);
            }
        }
    }
    let n = c.cases.load(Ordering::Relaxed);
    if n % 90_001 == 11 {
        samples.lock().unwrap().offer(|| json!({"query_text": case.cq.text, "arguments": engine::args_json(case.args), "dataset": case.ds.name, "adapters": outcomes.iter().map(|(w, o)| json!({"wrapper": w, "rows": if let Exec::Rows(r) = o { r.len() as i64 } else { -1 }})).collect::<Vec<_>>()}));
    }
}

pub fn run(ctx: &Ctx) -> ! {
    let uni = Universe::sverif();
    let counters = Counters::default();
    let samples = Mutex::new(Samples::new(4));
    if let Some(path) = &ctx.replay {
        let v: serde_json::Value = serde_json::from_str(&std::fs::read_to_string(path).unwrap_or_else(|e| crate::common::machinery(&format!("{e}")))).unwrap();
        let (cq, ds, args) = corpus::case_from_replay(&uni, &v).unwrap_or_else(|e| crate::common::machinery(&e));
        check_case(ctx, &uni, &Case { cq: &cq, ds: &ds, args: &args }, &counters, &samples);
        let mut c = cov();
        c.insert("evaluations".into(), json!(counters.runs.load(Ordering::Relaxed)));
        c.insert("distinct_nontrivial".into(), json!(1));
        ctx.finish("exploration", c, vec![]);
    }
    let distinct: Mutex<BTreeSet<u64>> = Mutex::new(BTreeSet::new());
    let per_case = |case: &Case<'_>| {
        check_case(ctx, &uni, case, &counters, &samples);
        let f = qast::features(&case.cq.q);
        if f.filters_var + f.filters_tag + f.count_filter + f.count_tag + f.fold + f.optional + f.recurse > 0 {
            distinct.lock().unwrap().insert(crate::common::fnv(format!("{}|{}", case.cq.text, engine::args_json(case.args)).as_bytes()));
        }
    };
    // (1) the general space, wide filters and wide argument domains
    let mut cfg = CorpusCfg::new(ctx.tier.pick(2, 3));
    cfg.gen.wide_filters = true;
    cfg.gen.naming_devs = false;
    cfg.wide_args = true;
    cfg.args_cap_per_var = 7;
    cfg.max_arg_maps = ctx.tier.pick(7, 14);
    let s1 = corpus::drive(ctx, &uni, &cfg, &|_| {}, &per_case, &|_, _| {});
    // (2) two-edge structures + one or two filter / tag / count deviations
    let sm = &uni.world.schema;
    let cfg_e = qgen::GenCfg { allow: Some(vec!["E"]), e_names: Some(vec!["next", "one"]), e_contents: vec![0, 1], recurse_depths: vec![1, 2], naming_devs: false, ..Default::default() };
    let structures: Vec<qast::Query> = qgen::enumerate(sm, &[qgen::skeleton()], 2, &cfg_e).into_iter().skip(1).flatten().collect();
    let mut cfg2 = CorpusCfg::new(ctx.tier.pick(1, 2));
    cfg2.seeds = structures;
    cfg2.gen = qgen::GenCfg { allow: Some(vec!["Pt", "Pf", "Fct", "Fcf", "Fco", "C"]), wide_filters: true, naming_devs: false, ..Default::default() };
    cfg2.wide_args = true;
    cfg2.args_cap_per_var = 7;
    cfg2.max_arg_maps = ctx.tier.pick(4, 7);
    let s2 = if ctx.elapsed() < ctx.budget_s() { Some(corpus::drive(ctx, &uni, &cfg2, &|_| {}, &per_case, &|_, _| {})) } else { None };

    // (3) operand-type space: every operator x every property type (Int!, Int, String, [Int], [String],
    //     Float, Boolean) with a variable, and every tagged property x filtered property x operator with a
    //     tag, on the skeletons and on one-edge structures; the frontend's typing rules decide acceptance.
    let cfg_e1 = qgen::GenCfg { allow: Some(vec!["E"]), e_names: Some(vec!["next", "one"]), e_contents: vec![0], recurse_depths: vec![2], naming_devs: false, ..Default::default() };
    let mut seeds3: Vec<qast::Query> = vec![qgen::skeleton()];
    seeds3.extend(qgen::enumerate(sm, &[qgen::skeleton()], 1, &cfg_e1).into_iter().skip(1).flatten());
    let mut cfg3 = CorpusCfg::new(1);
    cfg3.seeds = seeds3;
    cfg3.gen = qgen::GenCfg { allow: Some(vec!["Pf", "Pt"]), full_menus: true, naming_devs: false, ..Default::default() };
    cfg3.wide_args = true;
    cfg3.args_cap_per_var = 7;
    cfg3.max_arg_maps = 7;
    cfg3.ir_var_types_fallback = true;
    let mut uni3 = Universe::sverif();
    uni3.datasets.retain(|d| matches!(d.name.as_str(), "diamond" | "fan3" | "extremes"));
    let s3 = if ctx.elapsed() < ctx.budget_s() { Some(corpus::drive(ctx, &uni3, &cfg3, &|_| {}, &per_case, &|t, p| { if std::env::var("VERIF_DEBUG").is_ok() { eprintln!("FRONTEND PANIC {} :: {}", p.key(), t.replace('\n', " ")); } })) } else { None };

    let mut c = cov();
    c.insert("corpus_operand_types".into(), s3.as_ref().map(|s| s.to_json()).unwrap_or(json!("skipped: time budget used by the earlier corpora")));
    c.insert("evaluations".into(), json!(counters.runs.load(Ordering::Relaxed)));
    c.insert("distinct_nontrivial".into(), json!(distinct.lock().unwrap().len()));
    c.insert("rule".into(), json!("every (query, dataset, arguments) case of two enumerated spaces (k<=2 / k<=3 general space with the widened operator menu; two-edge structures + filter/tag/count deviations; the operand-type space: every operator x every property type with a variable and every tagged x filtered property x operator with a tag, as far as the frontend accepts), with wide argument domains (negative, zero, i64::MIN, u64::MAX, empty / null-containing lists, invalid regex text), run under catch_unwind with three adapters (plain lazy, always-pre-fetch-all batcher, hint pruner); evaluations = executions; non-trivial = distinct (query, arguments) pairs whose query has a filter, fold, optional or recursion"));
    c.insert("cases".into(), json!(counters.cases.load(Ordering::Relaxed)));
    c.insert("cases_rejected_by_argument_validation".into(), json!(counters.arg_rejected.load(Ordering::Relaxed)));
    c.insert("rows_produced".into(), json!(counters.rows.load(Ordering::Relaxed)));
    c.insert("corpus_general".into(), s1.to_json());
    c.insert("corpus_structures".into(), s2.as_ref().map(|s| s.to_json()).unwrap_or(json!("skipped: time budget used by the first corpus")));
    c.insert("samples".into(), json!(samples.lock().unwrap().items));
    let capped = s1.capped || s2.as_ref().map(|s| s.capped).unwrap_or(true) || s3.as_ref().map(|s| s.capped).unwrap_or(true);
    c.insert("exhaustive".into(), json!(!capped));
    ctx.finish(
        "exploration",
        c,
        vec![
            "the three adapters honour the adapter contract (C25's checker is run on the generic adapter)".into(),
            "frontend-rejected queries and argument maps rejected by validation are outside the premise".into(),
            "panics raised inside harness code are machinery errors, not verdicts".into(),
        ],
    )
}
