//! C10 — the frontend never panics on any query text. Bounded-exhaustive generators, each run
//! against S-verif and the repository's own test schemas:
//!  (a) token sequences: every sequence of <= L tokens from a 19-token alphabet, raw and spliced
//!      into four positions of a valid query;
//!  (b) directive sequences: every sequence of <= D directives (menu of well-formed and malformed
//!      ones) on an edge field, a property field and a folded edge;
//!  (c) document shapes (hand-enumerated list);
//!  (d) the operand-type space: every operator x every property type (variable and tag operands),
//!      and the general deviation-bounded query space (frontend panics only).
//! Oracle: `frontend::parse` under `catch_unwind` returns `Ok` or `Err`.

use std::{
    collections::BTreeMap,
    sync::{
        atomic::{AtomicU64, Ordering},
        Mutex,
    },
};

use rayon::prelude::*;
use serde_json::json;
use trustfall_core::schema::Schema;

use crate::{
    common::{cov, Ctx, Samples},
    corpus::{self, CorpusCfg, Universe},
    engine::{self, Compiled},
    qast, qgen,
};

pub struct Vocab {
    pub schema_id: &'static str,
    pub schema_text: String,
    pub root: &'static str,
    pub root_params: &'static str,
    pub edge: &'static str,
    pub prop: &'static str,
    pub subtype: &'static str,
    pub other_type: &'static str,
}

fn repo_schema(name: &str) -> String {
    std::fs::read_to_string(format!("/repo/trustfall_core/test_data/schemas/{name}.graphql")).unwrap_or_else(|e| crate::common::machinery(&format!("cannot read repo schema {name}: {e}")))
}

pub fn vocabularies() -> Vec<Vocab> {
    vec![
        Vocab { schema_id: "S-verif", schema_text: crate::dataset::SVERIF_TEXT.to_string(), root: "V", root_params: "(min: 1)", edge: "next", prop: "id", subtype: "A", other_type: "Chain" },
        Vocab { schema_id: "numbers", schema_text: repo_schema("numbers"), root: "Number", root_params: "(max: 3)", edge: "successor", prop: "value", subtype: "Prime", other_type: "Letter" },
    ]
}

fn tokens(v: &Vocab) -> Vec<String> {
    vec![
        "{".into(),
        "}".into(),
        "query".into(),
        "Q".into(),
        v.root.into(),
        v.edge.into(),
        v.prop.into(),
        v.root_params.into(),
        "x:".into(),
        format!("... on {}", v.subtype),
        "...F".into(),
        format!("fragment F on {}", v.subtype),
        "@output".into(),
        "@filter(op: \"=\", value: [\"$v\"])".into(),
        "@tag".into(),
        "@optional".into(),
        "@fold".into(),
        "@recurse(depth: 2)".into(),
        "@transform(op: \"count\")".into(),
    ]
}

fn contexts(v: &Vocab) -> Vec<(&'static str, String, String)> {
    vec![
        ("raw", String::new(), String::new()),
        ("selection", format!("{{ {} {{ ", v.root), " } }".into()),
        ("edge-decoration", format!("{{ {} {{ {} @output {} ", v.root, v.prop, v.edge), format!(" {{ {} }} }} }}", v.prop)),
        ("property-decoration", format!("{{ {} {{ {} ", v.root, v.prop), " } }".into()),
        ("after-fold", format!("{{ {} {{ {} @output {} @fold ", v.root, v.prop, v.edge), format!(" {{ {} }} }} }}", v.prop)),
    ]
}

fn directive_menu() -> Vec<&'static str> {
    vec![
        "@filter(op: \"=\", value: [\"$v\"])",
        "@filter(op: \">=\", value: [\"%t\"])",
        "@filter(op: \"<\", value: [\"$w\"])",
        "@filter(op: \"is_null\")",
        "@filter(op: \"one_of\", value: [\"$l\"])",
        "@filter(value: [\"$v\"])",
        "@filter(op: \"nope\", value: [\"$v\"])",
        "@filter(op: \"=\", value: \"$v\")",
        "@filter(op: \"=\", value: [\"$v\", \"$w\"])",
        "@filter(op: \"=\", value: [1])",
        "@filter(op: \"=\", value: [\"v\"])",
        "@filter(op: \"=\", value: [])",
        "@filter(op: \"=\")",
        "@filter(op: \"is_null\", value: [\"$v\"])",
        "@filter(op: 1, value: [\"$v\"])",
        "@tag",
        "@tag(name: \"t\")",
        "@tag(name: 1)",
        "@output",
        "@output(name: \"o\")",
        "@output(name: 1)",
        "@output(name: \"a\", name: \"b\")",
        "@optional",
        "@fold",
        "@recurse(depth: 1)",
        "@recurse(depth: 0)",
        "@recurse(depth: 4294967296)",
        "@recurse(depth: -1)",
        "@recurse(depth: 1.5)",
        "@recurse(depth: \"a\")",
        "@recurse",
        "@transform(op: \"count\")",
        "@transform(op: \"unknown\")",
        "@transform",
        "@foo",
        "@optional(x: 1)",
    ]
}

fn document_shapes(v: &Vocab) -> Vec<String> {
    let (r, e, p, t, o) = (v.root, v.edge, v.prop, v.subtype, v.other_type);
    let body = format!("{{ {r} {{ {p} @output }} }}");
    let deep = {
        let mut s = format!("{{ {r} {{ {p} @output ");
        for _ in 0..60 {
            s.push_str(&format!("{e} {{ {p} "));
        }
        s.push_str(&"} ".repeat(60));
        s.push_str("} }");
        s
    };
    vec![
        String::new(),
        " ".into(),
        "{}".into(),
        "{ }".into(),
        body.clone(),
        format!("query {body}"),
        format!("query Q {body}"),
        format!("query Q {body} query R {body}"),
        format!("{body} {body}"),
        format!("query Q {body} query R {body} query S {body}"),
        format!("mutation {body}"),
        format!("mutation M {body}"),
        format!("subscription {body}"),
        format!("subscription S {body}"),
        format!("query Q($v: Int) {body}"),
        format!("query Q($v: Int = 1) {{ {r} {{ {p} @output @filter(op: \"=\", value: [\"$v\"]) }} }}"),
        format!("query Q @foo {body}"),
        format!("query Q @optional {body}"),
        format!("{{ {r} {{ {p} @output }} {r} {{ {p} @output(name: \"b\") }} }}"),
        format!("{{ a: {r} {{ {p} @output }} b: {r} {{ {p} @output(name: \"b\") }} }}"),
        format!("{{ {r} @optional {{ {p} @output }} }}"),
        format!("{{ {r} @fold {{ {p} @output }} }}"),
        format!("{{ {r} @recurse(depth: 2) {{ {p} @output }} }}"),
        format!("{{ {r} @output {{ {p} @output }} }}"),
        format!("{{ {r} @filter(op: \"=\", value: [\"$v\"]) {{ {p} @output }} }}"),
        format!("{{ {r} @tag {{ {p} @output }} }}"),
        format!("{{ {r} }}"),
        format!("{{ {r} {{ }} }}"),
        format!("{{ {p} }}"),
        format!("{{ {p} @output }}"),
        format!("{{ ... on {t} {{ {p} @output }} }}"),
        format!("{{ ...F }} fragment F on {t} {{ {p} @output }}"),
        format!("{{ {r} {{ ...F }} }} fragment F on {t} {{ {p} @output }}"),
        format!("fragment F on {t} {{ {p} @output }}"),
        format!("{{ {r} {{ ... on {t} {{ {p} @output }} }} }}"),
        format!("{{ {r} {{ ... on {o} {{ {p} @output }} }} }}"),
        format!("{{ {r} {{ ... on Nope {{ {p} @output }} }} }}"),
        format!("{{ {r} {{ ... {{ {p} @output }} }} }}"),
        format!("{{ {r} {{ ... on {t} {{ {p} @output }} {p} @output(name: \"b\") }} }}"),
        format!("{{ {r} {{ {p} @output(name: \"b\") ... on {t} {{ {p} @output }} }} }}"),
        format!("{{ {r} {{ ... on {t} {{ {p} @output }} ... on {t} {{ {p} @output(name: \"b\") }} }} }}"),
        format!("{{ {r} {{ ... on {t} {{ ... on {t} {{ {p} @output }} }} }} }}"),
        format!("{{ {r} {{ {p} {{ ... on {t} {{ {p} @output }} }} }} }}"),
        format!("{{ {r} {{ {p} @output {{ {p} }} }} }}"),
        format!("{{ {r} {{ {p} @output {e} {{ ... on {t} {{ {p} @output(name: \"b\") }} }} }} }}"),
        format!("{{ {r} {{ {p} @output {e} @fold {{ ... on {t} {{ {p} @output(name: \"b\") }} }} }} }}"),
        format!("{{ {r} {{ {p} @output {e} @optional {{ ... on {o} {{ {p} @output(name: \"b\") }} }} }} }}"),
        format!("{{ {r} {{ {p} @output {e} @recurse(depth: 2) {{ ... on {t} {{ {p} @output(name: \"b\") }} }} }} }}"),
        format!("{{ {r} {{ __typename @output }} }}"),
        format!("{{ {r} {{ __typename @filter(op: \"=\", value: [\"$v\"]) {p} @output }} }}"),
        format!("{{ {r} {{ __typename {{ {p} @output }} }} }}"),
        format!("{{ {r} {{ __schema @output }} }}"),
        format!("{{ __typename }}"),
        format!("{{ __schema {{ types {{ name }} }} }}"),
        format!("{{ {r} {{ nope @output }} }}"),
        format!("{{ {r} {{ {p} @output nope {{ {p} }} }} }}"),
        format!("{{ {r}(nope: 1) {{ {p} @output }} }}"),
        format!("{{ {r}(min: \"a\") {{ {p} @output }} }}"),
        format!("{{ {r}(min: $v) {{ {p} @output }} }}"),
        format!("{{ {r}(min: null) {{ {p} @output }} }}"),
        format!("{{ {r}(min: [1]) {{ {p} @output }} }}"),
        format!("{{ {r}(min: {{a: 1}}) {{ {p} @output }} }}"),
        format!("{{ {r}(min: ENUMVAL) {{ {p} @output }} }}"),
        format!("{{ {r}(min: 1.5) {{ {p} @output }} }}"),
        format!("{{ {r}(min: 18446744073709551615) {{ {p} @output }} }}"),
        format!("{{ {r}(min: 99999999999999999999999) {{ {p} @output }} }}"),
        format!("{{ {r}(min: 1, min: 2) {{ {p} @output }} }}"),
        format!("{{ {r} {{ {p}(x: 1) @output }} }}"),
        format!("{{ {r} {{ {p} @output {e}(x: 1) {{ {p} }} }} }}"),
        format!("{{ {r} {{ {p} @output {p} @output }} }}"),
        format!("{{ {r} {{ {p} @output a: {p} @output }} }}"),
        format!("{{ {r} {{ a: {p} @output a: {p} @output }} }}"),
        format!("{{ {r} {{ {p} @tag @output {p} @filter(op: \"=\", value: [\"%{p}\"]) }} }}"),
        format!("{{ {r} {{ {p} @filter(op: \"=\", value: [\"%{p}\"]) {p} @tag @output }} }}"),
        format!("{{ {r} {{ {p} @tag @tag @output }} }}"),
        format!("{{ {r} {{ {p} @tag(name: \"a\") @tag(name: \"b\") @output @filter(op: \"=\", value: [\"%a\"]) @filter(op: \"=\", value: [\"%b\"]) }} }}"),
        format!("{{ {r} {{ {p} @output {e} @fold @transform(op: \"count\") @output @output {{ {p} }} }} }}"),
        format!("{{ {r} {{ {p} @output {e} @fold @transform(op: \"count\") @transform(op: \"count\") @output {{ {p} }} }} }}"),
        format!("{{ {r} {{ {p} @output {e} @transform(op: \"count\") @output {{ {p} }} }} }}"),
        format!("{{ {r} {{ {p} @output @transform(op: \"count\") }} }}"),
        format!("{{ {r} {{ {p} @output {e} @fold @fold {{ {p} }} }} }}"),
        format!("{{ {r} {{ {p} @output {e} @optional @optional {{ {p} }} }} }}"),
        format!("{{ {r} {{ {p} @output {e} @fold @optional {{ {p} }} }} }}"),
        format!("{{ {r} {{ {p} @output {e} @fold @recurse(depth: 2) {{ {p} }} }} }}"),
        format!("{{ {r} {{ {p} @output {e} @optional @recurse(depth: 2) {{ {p} }} }} }}"),
        format!("{{ {r} {{ {p} @output {e} @recurse(depth: 2) @recurse(depth: 3) {{ {p} }} }} }}"),
        format!("{{ {r} {{ {p} @output {e} @fold @transform(op: \"count\") @tag(name: \"c\") {{ {p} }} {e} @fold @transform(op: \"count\") @filter(op: \"=\", value: [\"%c\"]) {{ {p} }} }} }}"),
        format!("{{ {r} {{ {p} @output {e} @fold @transform(op: \"count\") @filter(op: \"=\", value: [\"%c\"]) {{ {p} }} {e} @fold @transform(op: \"count\") @tag(name: \"c\") {{ {p} }} }} }}"),
        format!("{{ {r} {{ {p} @output {e} @fold @transform(op: \"count\") @filter(op: \"regex\", value: [\"$v\"]) {{ {p} }} }} }}"),
        format!("{{ {r} {{ {p} @output {e} @fold @transform(op: \"count\") @filter(op: \"is_null\") {{ {p} }} }} }}"),
        format!("{{ {r} {{ {p} @output {e} @fold @transform(op: \"count\") @filter(op: \"contains\", value: [\"$v\"]) {{ {p} }} }} }}"),
        format!("{{ {r} {{ {p} @output {e} @fold @transform(op: \"count\") @filter(op: \"one_of\", value: [\"$v\"]) {{ {p} }} }} }}"),
        format!("{{ {r} {{ {p} @output @filter(op: \"=\", value: [\"$v\"]) @filter(op: \"one_of\", value: [\"$v\"]) }} }}"),
        format!("{{ {r} {{ {p} @output @filter(op: \"=\", value: [\"$v\"]) {e} {{ __typename @filter(op: \"=\", value: [\"$v\"]) }} }} }}"),
        format!("{{ {r} {{ {p} @output @filter(op: \"<\", value: [\"$v\"]) @filter(op: \"is_null\") }} }}"),
        format!("{{ {r} {{ {p} @output @filter(op: \"=\", value: [\"$\"]) }} }}"),
        format!("{{ {r} {{ {p} @output @filter(op: \"=\", value: [\"%\"]) }} }}"),
        format!("{{ {r} {{ {p} @output @filter(op: \"=\", value: [\"$1\"]) }} }}"),
        format!("{{ {r} {{ {p} @output @filter(op: \"=\", value: [\"$é\"]) }} }}"),
        format!("{{ {r} {{ {p} @output(name: \"\") }} }}"),
        format!("{{ {r} {{ {p} @output(name: \"1a\") }} }}"),
        format!("{{ {r} {{ {p} @output(name: \"a b\") }} }}"),
        format!("{{ {r} {{ {p} @output(name: \"é\") }} }}"),
        format!("{{ {r} {{ {p} @tag(name: \"\") @output }} }}"),
        format!("{{ {r} {{ {p} @output }} }} # comment"),
        format!("{{ {r} {{ {p} @output }} }} }}"),
        format!("{{ {r} {{ {p} @output }}"),
        "\u{0}".into(),
        "\u{feff}{ }".into(),
        deep,
    ]
}

struct Tally {
    parsed: AtomicU64,
    ok: AtomicU64,
    err: AtomicU64,
    panics: AtomicU64,
}

fn try_parse(ctx: &Ctx, schema: &Schema, schema_id: &str, text: &str, generator: &str, tally: &Tally) {
    tally.parsed.fetch_add(1, Ordering::Relaxed);
    match engine::compile(schema, text) {
        Compiled::Ok(_) => {
            tally.ok.fetch_add(1, Ordering::Relaxed);
        }
        Compiled::Err(_) => {
            tally.err.fetch_add(1, Ordering::Relaxed);
        }
        Compiled::Panic(p) => {
            tally.panics.fetch_add(1, Ordering::Relaxed);
            ctx.fail(&p.key(), &format!("frontend panicked: {}", p.message.lines().next().unwrap_or("")), json!({"schema_id": schema_id, "query_text": text, "generator": generator, "observed": p.to_json(), "expected": "Ok or a typed error"}));
        }
    }
}

/// all sequences of exactly `len` indexes below `n`
fn for_each_seq(n: usize, len: usize, f: &(dyn Fn(&[usize]) + Sync)) {
    if len == 0 {
        f(&[]);
        return;
    }
    (0..n).into_par_iter().for_each(|first| {
        let mut idx = vec![0usize; len];
        idx[0] = first;
        loop {
            f(&idx);
            let mut k = len - 1;
            loop {
                if k == 0 {
                    return;
                }
                idx[k] += 1;
                if idx[k] < n {
                    break;
                }
                idx[k] = 0;
                k -= 1;
            }
        }
    });
}

pub fn run(ctx: &Ctx) -> ! {
    let tally = Tally { parsed: AtomicU64::new(0), ok: AtomicU64::new(0), err: AtomicU64::new(0), panics: AtomicU64::new(0) };
    let samples = Mutex::new(Samples::new(6));
    let vocabs = vocabularies();
    let schemas: Vec<Schema> = vocabs.iter().map(|v| engine::parse_schema(&v.schema_text)).collect();
    let budget = ctx.budget_s();

    if let Some(path) = &ctx.replay {
        let v: serde_json::Value = serde_json::from_str(&std::fs::read_to_string(path).unwrap_or_else(|e| crate::common::machinery(&format!("{e}")))).unwrap();
        let sid = v["schema_id"].as_str().unwrap_or("S-verif");
        let k = vocabs.iter().position(|x| x.schema_id == sid).unwrap_or(0);
        let text = v["query_text"].as_str().unwrap_or_default();
        try_parse(ctx, &schemas[k], sid, text, "replay", &tally);
        println!("query: {text}\nobserved: ok={} err={} panics={}", tally.ok.load(Ordering::Relaxed), tally.err.load(Ordering::Relaxed), tally.panics.load(Ordering::Relaxed));
        let mut c = cov();
        c.insert("evaluations".into(), json!(1));
        c.insert("distinct_nontrivial".into(), json!(1));
        ctx.finish("exploration", c, vec![]);
    }

    let mut per_generator: BTreeMap<String, serde_json::Value> = BTreeMap::new();
    let mut capped = false;

    // (c) document shapes, all schemas
    let before = tally.parsed.load(Ordering::Relaxed);
    for (v, s) in vocabs.iter().zip(&schemas) {
        for d in document_shapes(v) {
            try_parse(ctx, s, v.schema_id, &d, "document-shapes", &tally);
        }
    }
    per_generator.insert("c-document-shapes".into(), json!({"documents": tally.parsed.load(Ordering::Relaxed) - before}));

    // (d) operand-type space and the general query space (S-verif): frontend panics only
    let uni = Universe { datasets: vec![], ..Universe::sverif() };
    let sm = &uni.world.schema;
    let cfg_e1 = qgen::GenCfg { allow: Some(vec!["E"]), e_names: Some(vec!["next", "one"]), e_contents: vec![0], recurse_depths: vec![2], naming_devs: false, ..Default::default() };
    let mut seeds: Vec<qast::Query> = vec![qgen::skeleton()];
    seeds.extend(qgen::enumerate(sm, &[qgen::skeleton()], 1, &cfg_e1).into_iter().skip(1).flatten());
    let mut cfg3 = CorpusCfg::new(1);
    cfg3.seeds = seeds;
    cfg3.gen = qgen::GenCfg { allow: Some(vec!["Pf", "Pt", "Fcf", "Fct"]), full_menus: true, naming_devs: false, ..Default::default() };
    cfg3.max_arg_maps = 0;
    cfg3.ir_var_types_fallback = true;
    let on_panic = |text: &str, p: &crate::common::PanicRec| {
        tally.panics.fetch_add(1, Ordering::Relaxed);
        ctx.fail(&p.key(), &format!("frontend panicked: {}", p.message.lines().next().unwrap_or("")), json!({"schema_id": "S-verif", "query_text": text, "generator": "enumerated-query-space", "observed": p.to_json(), "expected": "Ok or a typed error"}));
    };
    let s_ops = corpus::drive(ctx, &uni, &cfg3, &|_| {}, &|_| {}, &on_panic);
    let mut cfg4 = CorpusCfg::new(ctx.tier.pick(2, 3));
    cfg4.gen.wide_filters = true;
    cfg4.max_arg_maps = 0;
    let s_gen = corpus::drive(ctx, &uni, &cfg4, &|_| {}, &|_| {}, &on_panic);
    // error paths: valid structure (two edges + up to two further deviations) with one or two
    // invalidating deviations (name collisions, ill-typed filter, undefined tag, unknown property)
    // placed before / between / after it
    // seeds: two-edge structures + one tag / count deviation (valid); then exactly one invalidating deviation
    let base5 = corpus::structures_cfg(&uni, 1, vec!["Pt", "Fct", "Fco"], 2);
    let seeds5: Vec<qast::Query> = qgen::enumerate(sm, &base5.seeds, 1, &base5.gen).into_iter().flatten().collect();
    let mut cfg5 = CorpusCfg::new(1);
    cfg5.seeds = seeds5;
    cfg5.gen = qgen::GenCfg { allow: Some(vec![]), invalid_devs: true, naming_devs: false, ..Default::default() };
    cfg5.max_arg_maps = 0;
    let s_inv = corpus::drive(ctx, &uni, &cfg5, &|_| {}, &|_| {}, &on_panic);
    let mut cfg6 = CorpusCfg::new(ctx.tier.pick(2, 3));
    cfg6.gen.invalid_devs = true;
    cfg6.gen.naming_devs = false;
    cfg6.max_arg_maps = 0;
    cfg6.keep = Some(std::sync::Arc::new(|q: &qast::Query| {
        let t = q.text();
        t.contains("undefined_tag") || t.contains("nope") || t.contains("$bad") || {
            // a duplicated explicit name
            let mut names: Vec<&str> = t.split("(name: \"").skip(1).filter_map(|x| x.split('"').next()).collect();
            let n = names.len();
            names.sort();
            names.dedup();
            names.len() < n
        }
    }));
    let s_inv2 = corpus::drive(ctx, &uni, &cfg6, &|_| {}, &|_| {}, &on_panic);
    let cfg7 = {
        let mut c = corpus::var_reuse_cfg(&uni);
        c.max_arg_maps = 0;
        c
    };
    let s_var = corpus::drive(ctx, &uni, &cfg7, &|_| {}, &|_| {}, &on_panic);
    tally.parsed.fetch_add(s_var.queries_done, Ordering::Relaxed);
    tally.ok.fetch_add(s_var.compiled, Ordering::Relaxed);
    tally.err.fetch_add(s_var.rejected, Ordering::Relaxed);
    per_generator.insert("f-variable-reuse".into(), s_var.to_json());
    capped |= s_var.capped;
    tally.parsed.fetch_add(s_inv.queries_done + s_inv2.queries_done, Ordering::Relaxed);
    tally.ok.fetch_add(s_inv.compiled + s_inv2.compiled, Ordering::Relaxed);
    tally.err.fetch_add(s_inv.rejected + s_inv2.rejected, Ordering::Relaxed);
    per_generator.insert("e-invalidated-structures".into(), s_inv.to_json());
    per_generator.insert("e-invalidated-general-space".into(), s_inv2.to_json());
    capped |= s_inv.capped || s_inv2.capped;
    tally.parsed.fetch_add(s_ops.queries_done + s_gen.queries_done, Ordering::Relaxed);
    tally.ok.fetch_add(s_ops.compiled + s_gen.compiled, Ordering::Relaxed);
    tally.err.fetch_add(s_ops.rejected + s_gen.rejected, Ordering::Relaxed);
    per_generator.insert("d-operand-type-space".into(), s_ops.to_json());
    per_generator.insert("d-general-query-space".into(), s_gen.to_json());
    capped |= s_ops.capped || s_gen.capped;

    // (b) directive sequences
    let dmenu = directive_menu();
    let dmax = ctx.tier.pick(3usize, 4usize);
    let before = tally.parsed.load(Ordering::Relaxed);
    let accepted_b = AtomicU64::new(0);
    for (v, s) in vocabs.iter().zip(&schemas) {
        let places: Vec<(&str, String, String)> = vec![
            ("property", format!("{{ {} {{ a: {} @tag(name: \"t\") {} ", v.root, v.prop, v.prop), " } }".into()),
            ("edge", format!("{{ {} {{ {} @tag(name: \"t\") @output {} ", v.root, v.prop, v.edge), format!(" {{ {} }} }} }}", v.prop)),
            ("edge-with-output-inside", format!("{{ {} {{ {} @tag(name: \"t\") {} ", v.root, v.prop, v.edge), format!(" {{ {} @output }} }} }}", v.prop)),
            // the same decorated edge one level down (the enclosing edge has its own scope to open and close)
            ("edge-under-edge", format!("{{ {} {{ {} @tag(name: \"t\") {} {{ {} ", v.root, v.prop, v.edge, v.edge), format!(" {{ {} @output }} }} }} }}", v.prop)),
            ("edge-under-fold", format!("{{ {} {{ {} @tag(name: \"t\") @output {} @fold {{ {} ", v.root, v.prop, v.edge, v.edge), format!(" {{ {} @output }} }} }} }}", v.prop)),
        ];
        for len in 0..=dmax {
            if ctx.elapsed() > budget {
                capped = true;
                break;
            }
            for (_pname, pre, post) in &places {
                for_each_seq(dmenu.len(), len, &|idx| {
                    let mut t = pre.clone();
                    for i in idx {
                        t.push_str(dmenu[*i]);
                        t.push(' ');
                    }
                    t.push_str(post);
                    let before_ok = tally.ok.load(Ordering::Relaxed);
                    try_parse(ctx, s, v.schema_id, &t, "directive-sequences", &tally);
                    if tally.ok.load(Ordering::Relaxed) > before_ok {
                        let n = accepted_b.fetch_add(1, Ordering::Relaxed);
                        if n % 997 == 5 {
                            samples.lock().unwrap().offer(|| json!({"generator": "directive-sequences", "schema_id": v.schema_id, "query_text": t, "verdict": "accepted"}));
                        }
                    }
                });
            }
        }
    }
    per_generator.insert("b-directive-sequences".into(), json!({"max_directives": dmax, "menu": dmenu.len(), "documents": tally.parsed.load(Ordering::Relaxed) - before}));

    // (a) token sequences
    let lmax = ctx.tier.pick(4usize, 6usize);
    let mut completed_l = 0;
    let before = tally.parsed.load(Ordering::Relaxed);
    'outer: for len in 0..=lmax {
        for (v, s) in vocabs.iter().zip(&schemas) {
            let toks = tokens(v);
            for (cname, pre, post) in contexts(v) {
                // the longest layer runs in the raw and selection contexts only
                if len == lmax && len > 4 && !matches!(cname, "raw" | "selection") {
                    continue;
                }
                if ctx.elapsed() > budget {
                    capped = true;
                    break 'outer;
                }
                for_each_seq(toks.len(), len, &|idx| {
                    let mut t = pre.clone();
                    for i in idx {
                        t.push_str(&toks[*i]);
                        t.push(' ');
                    }
                    t.push_str(&post);
                    try_parse(ctx, s, v.schema_id, &t, "token-sequences", &tally);
                });
            }
        }
        completed_l = len;
    }
    per_generator.insert("a-token-sequences".into(), json!({"alphabet": 19, "max_length_completed": completed_l, "contexts": 5, "documents": tally.parsed.load(Ordering::Relaxed) - before}));

    let mut c = cov();
    c.insert("evaluations".into(), json!(tally.parsed.load(Ordering::Relaxed)));
    c.insert("distinct_nontrivial".into(), json!(tally.ok.load(Ordering::Relaxed)));
    c.insert("rule".into(), json!("every document of four bounded-exhaustive generators (token sequences over a 19-token alphabet up to length L in 5 contexts; directive sequences up to D directives from a 36-entry menu at 3 positions; ~110 document shapes; the operand-type space and the deviation-bounded query space; the same spaces with invalidating deviations: output / tag name collisions, ill-typed filters, undefined tags, unknown properties) is compiled by the real frontend under catch_unwind against S-verif and the repository's numbers schema; non-trivial = documents the frontend accepted (the rest received a typed error)"));
    c.insert("documents_accepted".into(), json!(tally.ok.load(Ordering::Relaxed)));
    c.insert("documents_rejected_with_typed_error".into(), json!(tally.err.load(Ordering::Relaxed)));
    c.insert("documents_panicking".into(), json!(tally.panics.load(Ordering::Relaxed)));
    c.insert("generators".into(), json!(per_generator));
    c.insert("samples".into(), json!(samples.lock().unwrap().items));
    c.insert("exhaustive".into(), json!(!capped));
    ctx.finish(
        "exploration",
        c,
        vec![
            "'every query string' is bounded to these grammars; arbitrary byte strings mostly exercise the external GraphQL parser".into(),
            "schemas: S-verif and numbers (both accepted by schema validation)".into(),
        ],
    )
}
