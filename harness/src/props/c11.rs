//! C11 — compiled queries are structurally well-formed. An invariant checker written from the
//! comment in ir/indexed.rs and the asserts in compute_component, run on every accepted query.

use std::{
    collections::{BTreeMap, BTreeSet},
    sync::{
        atomic::{AtomicU64, Ordering},
        Arc, Mutex,
    },
};

use serde_json::json;
use trustfall_core::ir::{Argument, FieldRef, IRQueryComponent, IndexedQuery, Vid};

use crate::{
    common::{cov, Ctx, Samples},
    corpus::{self, CorpusCfg, Universe},
    qast,
    schema_model::{SchemaModel, TyRef},
};

fn vid_n(v: &Vid) -> usize {
    // Vid's inner value is crate-private; its Debug form is `Vid(n)`
    format!("{v:?}").trim_start_matches("Vid(").trim_end_matches(')').parse().unwrap()
}
fn eid_n(e: &trustfall_core::ir::Eid) -> usize {
    format!("{e:?}").trim_start_matches("Eid(").trim_end_matches(')').parse().unwrap()
}

fn fieldref_key(f: &FieldRef) -> String {
    match f {
        FieldRef::ContextField(c) => format!("ctx:{}:{}", vid_n(&c.vertex_id), c.field_name),
        FieldRef::FoldSpecificField(s) => format!("fold:{}:{:?}", eid_n(&s.fold_eid), s.kind),
        _ => "?".into(),
    }
}

struct Walk<'a> {
    schema: &'a SchemaModel,
    errs: Vec<(String, String)>,
    vids: BTreeMap<usize, usize>, // vid -> component id
    eids: BTreeSet<usize>,
    var_uses: BTreeMap<String, Vec<TyRef>>,
    out_names: Vec<String>,
}

impl<'a> Walk<'a> {
    fn err(&mut self, key: &str, what: String) {
        self.errs.push((key.to_string(), what));
    }

    /// returns (min eid, max eid) used in this component and its sub-components, and the set of
    /// tag uses (as keys) made inside it (transitively) that are not defined inside it
    fn component(&mut self, c: &IRQueryComponent, comp_id: &mut usize, ancestors: &[(usize, BTreeSet<String>)]) -> (Option<(usize, usize)>, BTreeSet<String>) {
        *comp_id += 1;
        let my_id = *comp_id;
        let mut range: Option<(usize, usize)> = None;
        let mut bump = |e: usize, range: &mut Option<(usize, usize)>| {
            *range = Some(match *range {
                None => (e, e),
                Some((a, b)) => (a.min(e), b.max(e)),
            })
        };
        // what this component defines (taggable things)
        let mut defined: BTreeSet<String> = BTreeSet::new();
        if !c.vertices.contains_key(&c.root) {
            self.err("component-root-missing", format!("component root {:?} is not one of its vertices", c.root));
        }
        for (vid, v) in &c.vertices {
            if *vid != v.vid {
                self.err("vertex-key-mismatch", format!("vertex keyed {vid:?} carries vid {:?}", v.vid));
            }
            if self.vids.insert(vid_n(vid), my_id).is_some() {
                self.err("vid-not-unique", format!("{vid:?} occurs in two components"));
            }
            // I9 names
            if !self.schema.is_vertex_type(&v.type_name) {
                self.err("unknown-type", format!("vertex {vid:?} has undefined type {}", v.type_name));
            }
            if let Some(from) = &v.coerced_from_type {
                if !self.schema.is_vertex_type(from) || !self.schema.instance_of(&v.type_name, from) {
                    self.err("bad-coercion", format!("vertex {vid:?} coerced from {from} to {}", v.type_name));
                }
            }
            for f in &v.filters {
                let left = op_parts(f).0;
                if left.field_name.as_ref() != "__typename" {
                    match self.schema.field(&v.type_name, &left.field_name) {
                        Some(fm) if !self.schema.is_edge(fm) => {
                            if fm.ty.text() != left.field_type.to_string() {
                                self.err("filter-field-type", format!("filter on {}.{} records type {} but the schema says {}", v.type_name, left.field_name, left.field_type, fm.ty.text()));
                            }
                        }
                        _ => self.err("unknown-property", format!("filter on {}.{}", v.type_name, left.field_name)),
                    }
                }
            }
        }
        for v in c.vertices.values() {
            for p in self.schema.types.get(v.type_name.as_ref()).map(|t| t.fields.clone()).unwrap_or_default() {
                if !self.schema.is_edge(&p) {
                    defined.insert(format!("ctx:{}:{}", vid_n(&v.vid), p.name));
                }
            }
            defined.insert(format!("ctx:{}:__typename", vid_n(&v.vid)));
        }
        for f in c.folds.values() {
            defined.insert(format!("fold:{}:Count", eid_n(&f.eid)));
        }

        // edges
        let mut incoming: BTreeMap<usize, usize> = BTreeMap::new();
        for (eid, e) in &c.edges {
            let n = eid_n(eid);
            bump(n, &mut range);
            if *eid != e.eid {
                self.err("edge-key-mismatch", format!("edge keyed {eid:?} carries {:?}", e.eid));
            }
            if !self.eids.insert(n) {
                self.err("eid-not-unique", format!("{eid:?} occurs twice"));
            }
            if vid_n(&e.to_vid) != n + 1 {
                self.err("eid-vid-offset", format!("edge {eid:?} leads to {:?}, expected Vid({})", e.to_vid, n + 1));
            }
            if vid_n(&e.from_vid) >= vid_n(&e.to_vid) {
                self.err("edge-direction", format!("edge {eid:?} goes from {:?} to {:?}", e.from_vid, e.to_vid));
            }
            if !c.vertices.contains_key(&e.from_vid) || !c.vertices.contains_key(&e.to_vid) {
                self.err("edge-endpoint-outside-component", format!("edge {eid:?}"));
            } else {
                let from_ty = &c.vertices[&e.from_vid].type_name;
                match self.schema.field(from_ty, &e.edge_name) {
                    Some(fm) if self.schema.is_edge(fm) => {
                        let declared: BTreeSet<&str> = fm.params.iter().map(|p| p.name.as_str()).collect();
                        let have: BTreeSet<String> = e.parameters.iter().map(|(k, _)| k.to_string()).collect();
                        if declared.iter().map(|s| s.to_string()).collect::<BTreeSet<_>>() != have {
                            self.err("edge-parameters", format!("edge {from_ty}.{} carries parameters {have:?}, schema declares {declared:?}", e.edge_name));
                        }
                        let to = &c.vertices[&e.to_vid];
                        let unc = to.coerced_from_type.as_ref().unwrap_or(&to.type_name);
                        if unc.as_ref() != fm.ty.base() {
                            self.err("edge-target-type", format!("edge {from_ty}.{} targets {} but vertex {:?} is typed {unc}", e.edge_name, fm.ty.base(), e.to_vid));
                        }
                    }
                    _ => self.err("unknown-edge", format!("edge {from_ty}.{}", e.edge_name)),
                }
            }
            *incoming.entry(vid_n(&e.to_vid)).or_insert(0) += 1;
        }

        // tag uses in this component's vertex filters and fold post-filters
        let mut uses: Vec<(String, usize)> = vec![]; // (tag key, using vid)
        for v in c.vertices.values() {
            for f in &v.filters {
                match op_parts(f).1 {
                    Some(Argument::Tag(t)) => {
                        if vid_n(&t.defined_at()) > vid_n(&v.vid) {
                            self.err("tag-used-before-definition", format!("filter at {:?} uses a tag defined at {:?}", v.vid, t.defined_at()));
                        }
                        uses.push((fieldref_key(t), vid_n(&v.vid)));
                    }
                    Some(Argument::Variable(vr)) => self.var_uses.entry(vr.variable_name.to_string()).or_default().push(TyRef::parse(&vr.variable_type.to_string())),
                    None => {}
                }
            }
        }
        for f in c.folds.values() {
            for pf in &f.post_filters {
                match op_parts(pf).1 {
                    Some(Argument::Tag(t)) => uses.push((fieldref_key(t), vid_n(&f.to_vid))),
                    Some(Argument::Variable(vr)) => self.var_uses.entry(vr.variable_name.to_string()).or_default().push(TyRef::parse(&vr.variable_type.to_string())),
                    None => {}
                }
            }
        }

        // outputs of this component
        for (name, cf) in &c.outputs {
            self.out_names.push(name.to_string());
            if !c.vertices.contains_key(&cf.vertex_id) {
                self.err("output-outside-component", format!("output {name} refers to {:?}", cf.vertex_id));
            } else {
                let ty = &c.vertices[&cf.vertex_id].type_name;
                if cf.field_name.as_ref() != "__typename" && !matches!(self.schema.field(ty, &cf.field_name), Some(fm) if !self.schema.is_edge(fm)) {
                    self.err("unknown-property", format!("output {name} on {ty}.{}", cf.field_name));
                }
            }
        }

        // folds
        let mut external: BTreeSet<String> = BTreeSet::new();
        let mut anc: Vec<(usize, BTreeSet<String>)> = ancestors.to_vec();
        anc.push((my_id, defined.clone()));
        for (eid, f) in &c.folds {
            let n = eid_n(eid);
            bump(n, &mut range);
            if !self.eids.insert(n) {
                self.err("eid-not-unique", format!("{eid:?} occurs twice"));
            }
            if vid_n(&f.to_vid) != n + 1 {
                self.err("eid-vid-offset", format!("fold {eid:?} leads to {:?}", f.to_vid));
            }
            if f.to_vid != f.component.root {
                self.err("fold-root-mismatch", format!("fold {eid:?} to_vid {:?} but component root {:?}", f.to_vid, f.component.root));
            }
            if !c.vertices.contains_key(&f.from_vid) {
                self.err("fold-from-outside-parent", format!("fold {eid:?} from {:?}", f.from_vid));
            } else if !matches!(self.schema.field(&c.vertices[&f.from_vid].type_name, &f.edge_name), Some(fm) if self.schema.is_edge(fm)) {
                self.err("unknown-edge", format!("fold edge {}.{}", c.vertices[&f.from_vid].type_name, f.edge_name));
            }
            if vid_n(&f.from_vid) >= vid_n(&f.to_vid) {
                self.err("edge-direction", format!("fold {eid:?}"));
            }
            for name in f.fold_specific_outputs.keys() {
                self.out_names.push(name.to_string());
            }
            let (sub_range, sub_ext) = self.component(&f.component, comp_id, &anc);
            if let Some((lo, hi)) = sub_range {
                if lo <= n {
                    self.err("fold-eid-not-lowest", format!("fold {eid:?} contains Eid({lo})"));
                }
                if lo != n + 1 {
                    self.err("eids-not-an-interval", format!("fold {eid:?} is followed by Eid({lo}) inside it"));
                }
                bump(hi, &mut range);
            }
            // imported tags: no duplicates, each defined in *this* component, each used inside the fold
            let imported: Vec<String> = f.imported_tags.iter().map(fieldref_key).collect();
            let imported_set: BTreeSet<String> = imported.iter().cloned().collect();
            if imported_set.len() != imported.len() {
                self.err("imported-tag-duplicated", format!("fold {eid:?} imports {imported:?}"));
            }
            let should: BTreeSet<String> = sub_ext.iter().filter(|t| defined.contains(*t)).cloned().collect();
            if imported_set != should {
                self.err("imported-tags-wrong", format!("fold {eid:?} imports {imported_set:?} but uses {should:?} from its parent"));
            }
            for t in sub_ext {
                if !defined.contains(&t) {
                    external.insert(t);
                }
            }
        }
        for (t, _) in &uses {
            if !defined.contains(t) {
                // must be defined in an ancestor
                if !ancestors.iter().any(|(_, d)| d.contains(t)) {
                    self.err("tag-not-visible", format!("tag {t} is used in a component that cannot see it"));
                }
                external.insert(t.clone());
            }
        }

        // I3: every non-root vertex has exactly one incoming edge of this component
        for vid in c.vertices.keys() {
            let n = vid_n(vid);
            let inc = incoming.get(&n).copied().unwrap_or(0);
            if *vid == c.root {
                if inc != 0 {
                    self.err("root-has-incoming-edge", format!("{vid:?}"));
                }
            } else if inc != 1 {
                self.err("vertex-incoming-edges", format!("{vid:?} has {inc} incoming edges in its component"));
            }
        }
        // I5: eids of this component (with sub-components) form an interval
        if let Some((lo, hi)) = range {
            let mine: Vec<usize> = self.eids.iter().copied().filter(|e| *e >= lo && *e <= hi).collect();
            if mine.len() != hi - lo + 1 {
                self.err("eids-not-an-interval", format!("component rooted at {:?}: eids {lo}..={hi} have gaps", c.root));
            }
        }
        (range, external)
    }
}

pub fn check_ir(schema: &SchemaModel, iq: &IndexedQuery) -> Vec<(String, String)> {
    let mut w = Walk { schema, errs: vec![], vids: BTreeMap::new(), eids: BTreeSet::new(), var_uses: BTreeMap::new(), out_names: vec![] };
    let mut comp_id = 0;
    let (_, ext) = w.component(&iq.ir_query.root_component, &mut comp_id, &[]);
    if !ext.is_empty() {
        w.err("tag-not-visible", format!("root component uses external tags {ext:?}"));
    }
    // I2: Vids 1..N and Eids 1..N-1
    let n = w.vids.len();
    if w.vids.keys().copied().collect::<Vec<_>>() != (1..=n).collect::<Vec<_>>() {
        w.err("vids-not-dense", format!("vids {:?}", w.vids.keys().collect::<Vec<_>>()));
    }
    if w.eids.iter().copied().collect::<Vec<_>>() != (1..n).collect::<Vec<_>>() {
        w.err("eids-not-dense", format!("eids {:?} for {n} vertices", w.eids));
    }
    if iq.vids.keys().map(vid_n).collect::<Vec<_>>() != w.vids.keys().copied().collect::<Vec<_>>() {
        w.err("index-vids-wrong", "IndexedQuery.vids does not list exactly the query's vertices".into());
    }
    if iq.eids.keys().map(eid_n).collect::<BTreeSet<_>>() != w.eids {
        w.err("index-eids-wrong", "IndexedQuery.eids does not list exactly the query's edges".into());
    }
    // I8 outputs
    let mut names = w.out_names.clone();
    names.sort();
    let uniq: BTreeSet<&String> = names.iter().collect();
    if uniq.len() != names.len() {
        w.err("output-names-not-unique", format!("{names:?}"));
    }
    if iq.outputs.keys().map(|k| k.to_string()).collect::<Vec<_>>() != names {
        w.err("index-outputs-wrong", format!("IndexedQuery.outputs {:?} vs components {names:?}", iq.outputs.keys().collect::<Vec<_>>()));
    }
    // I7 variables
    let var_uses = std::mem::take(&mut w.var_uses);
    let declared: BTreeMap<String, TyRef> = iq.ir_query.variables.iter().map(|(k, t)| (k.to_string(), TyRef::parse(&t.to_string()))).collect();
    for (v, uses) in &var_uses {
        match declared.get(v) {
            None => w.err("variable-not-recorded", format!("${v} is used but not in IRQuery.variables")),
            Some(d) => {
                for u in uses {
                    // the recorded type must be a subtype of every use's type
                    if u.meet(d).as_ref() != Some(d) {
                        w.err("variable-type-incompatible", format!("${v}: recorded {} but used as {}", d.text(), u.text()));
                    }
                }
                let mut m = uses[0].clone();
                for u in &uses[1..] {
                    if let Some(x) = m.meet(u) {
                        m = x;
                    }
                }
                if &m != d {
                    w.err("variable-type-not-intersection", format!("${v}: recorded {} but the uses intersect to {}", d.text(), m.text()));
                }
            }
        }
    }
    for v in declared.keys() {
        if !var_uses.contains_key(v) {
            w.err("variable-recorded-but-unused", format!("${v}"));
        }
    }
    w.errs
}

pub fn run(ctx: &Ctx) -> ! {
    let uni = Universe::sverif();
    let cfg = CorpusCfg::new(ctx.tier.pick(2, 3));
    let uni = Universe { datasets: vec![], ..uni }; // no execution needed
    let checked = AtomicU64::new(0);
    let nontrivial: Mutex<BTreeSet<u64>> = Mutex::new(BTreeSet::new());
    let samples = Mutex::new(Samples::new(3));
    let per_query = |cq: &corpus::CompiledQuery| {
        checked.fetch_add(1, Ordering::Relaxed);
        for (key, what) in check_ir(&uni.world.schema, &cq.iq) {
            ctx.fail(&key, &what, json!({"schema_id": "S-verif", "query_text": cq.text, "observed": what, "ir": format!("{:?}", cq.iq.ir_query)}));
        }
        let f = qast::features(&cq.q);
        if f.fold > 0 || f.filters_tag > 0 || f.count_tag > 0 {
            nontrivial.lock().unwrap().insert(crate::common::fnv(format!("{:?}", cq.iq.ir_query).as_bytes()));
        }
        if f.fold > 0 && (f.filters_tag > 0 || f.count_tag > 0) {
            samples.lock().unwrap().offer(|| json!({"query_text": cq.text, "vertices": cq.iq.vids.len(), "edges": cq.iq.eids.len()}));
        }
    };
    let stats = corpus::drive(ctx, &uni, &cfg, &per_query, &|_| {}, &|_, _| {});
    // second space: two-edge structures + up to 2 (quick) / 3 (thorough) tag deviations (a tag used in
    // two sibling folds, in a nested fold and then a sibling of its parent, count tags, ...)
    let cfg2 = corpus::structures_cfg(&uni, ctx.tier.pick(2, 3), vec!["Pt", "Fct"], ctx.tier.pick(2, 3));
    let stats2 = corpus::drive(ctx, &uni, &cfg2, &per_query, &|_| {}, &|_, _| {});
    // third space: one variable used in two filters (two vertices / two operators, either order)
    let cfg3 = corpus::var_reuse_cfg(&uni);
    let stats3 = corpus::drive(ctx, &uni, &cfg3, &per_query, &|_| {}, &|text, p| {
        ctx.fail(&p.key(), "the frontend panicked while compiling", json!({"schema_id": "S-verif", "query_text": text, "observed": p.to_json()}));
    });
    let _ = Arc::new(0);
    let mut c = cov();
    c.insert("evaluations".into(), json!(checked.load(Ordering::Relaxed)));
    c.insert("distinct_nontrivial".into(), json!(nontrivial.lock().unwrap().len()));
    c.insert("rule".into(), json!("every query of two enumerated spaces (k deviations from the skeletons; two-edge structures + tag deviations) accepted by the frontend is checked against invariants I1-I9 (DESIGN.md C11); distinct = distinct IRs containing a fold or a tag"));
    c.insert("corpus".into(), stats.to_json());
    c.insert("corpus_tag_structures".into(), stats2.to_json());
    c.insert("corpus_variable_reuse".into(), stats3.to_json());
    c.insert("samples".into(), json!(samples.lock().unwrap().items));
    c.insert("exhaustive".into(), json!(!stats.capped && !stats2.capped && !stats3.capped));
    ctx.finish("exploration", c, vec!["invariants are those listed in DESIGN.md C11, written from ir/indexed.rs's comment and execution.rs's asserts".into()])
}

/// `Operation::left/right` are crate-private; the variants are public.
pub fn op_parts<L, R>(op: &trustfall_core::ir::Operation<L, R>) -> (&L, Option<&R>)
where
    L: std::fmt::Debug + Clone + PartialEq + Eq,
    R: std::fmt::Debug + Clone + PartialEq + Eq,
{
    use trustfall_core::ir::Operation as O;
    match op {
        O::IsNull(l) | O::IsNotNull(l) => (l, None),
        O::Equals(l, r)
        | O::NotEquals(l, r)
        | O::LessThan(l, r)
        | O::LessThanOrEqual(l, r)
        | O::GreaterThan(l, r)
        | O::GreaterThanOrEqual(l, r)
        | O::Contains(l, r)
        | O::NotContains(l, r)
        | O::OneOf(l, r)
        | O::NotOneOf(l, r)
        | O::HasPrefix(l, r)
        | O::NotHasPrefix(l, r)
        | O::HasSuffix(l, r)
        | O::NotHasSuffix(l, r)
        | O::HasSubstring(l, r)
        | O::NotHasSubstring(l, r)
        | O::RegexMatches(l, r)
        | O::NotRegexMatches(l, r) => (l, Some(r)),
        _ => unreachable!("unknown Operation variant"),
    }
}
