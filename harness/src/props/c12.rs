//! C12 — argument validation accepts exactly the well-typed, complete argument maps.
//! For every accepted query of the enumerated space with 1..=3 variables: every argument map over
//! {absent, 17-value alphabet} per variable x {no surplus, one surplus name}; oracle: variable types
//! computed from the AST by the documented operator typing rules + an independent `fits`.

use std::{
    collections::{BTreeMap, BTreeSet},
    sync::{
        atomic::{AtomicU64, Ordering},
        Arc, Mutex,
    },
};

use serde_json::json;
use trustfall_core::{
    interpreter::{error::QueryArgumentsError, execution::interpret_ir},
    ir::FieldValue as FV,
};

use crate::{
    common::{catch, cov, Ctx, Samples},
    corpus::{self, CompiledQuery, CorpusCfg, Universe},
    engine,
    graph_adapter::GraphAdapter,
    schema_model::TyRef,
    values::{i, list, s, show, u},
};

pub fn alphabet() -> Vec<FV> {
    vec![
        FV::Null,
        i(1),
        i(i64::MIN),
        u(u64::MAX),
        FV::Float64(1.5),
        s("a"),
        s("("),
        FV::Boolean(true),
        FV::Enum(Arc::from("A")),
        list(vec![]),
        list(vec![i(1)]),
        list(vec![FV::Null]),
        list(vec![s("a")]),
        list(vec![i(1), s("a")]),
        list(vec![list(vec![i(1)])]),
        list(vec![list(vec![])]),
        list(vec![FV::Float64(0.5), FV::Null]),
    ]
}

#[derive(Default, Debug)]
struct Named {
    missing: BTreeSet<String>,
    unused: BTreeSet<String>,
    mistyped: BTreeSet<String>,
}

fn collect(e: &QueryArgumentsError, out: &mut Named) {
    match e {
        QueryArgumentsError::MissingArguments(v) => out.missing.extend(v.iter().cloned()),
        QueryArgumentsError::UnusedArguments(v) => out.unused.extend(v.iter().cloned()),
        QueryArgumentsError::ArgumentTypeError(n, _, _) => {
            out.mistyped.insert(n.clone());
        }
        QueryArgumentsError::MultipleErrors(v) => {
            for x in v.0.iter() {
                collect(x, out);
            }
        }
    }
}

#[derive(Default)]
pub struct Counters {
    maps: AtomicU64,
    accepted: AtomicU64,
    refused: AtomicU64,
    queries: AtomicU64,
}

pub fn check_query(ctx: &Ctx, uni: &Universe, cq: &CompiledQuery, c: &Counters, samples: &Mutex<Samples>, sigs: &Mutex<BTreeSet<String>>) {
    let vars: Vec<(&String, &TyRef)> = cq.var_types.iter().collect();
    if vars.is_empty() || vars.len() > 3 {
        return;
    }
    c.queries.fetch_add(1, Ordering::Relaxed);
    sigs.lock().unwrap().insert(vars.iter().map(|(_, t)| t.text()).collect::<Vec<_>>().join(","));
    let alpha = alphabet();
    // with 3 variables the per-variable alphabet is reduced to keep the product small
    let per_var: Vec<Option<FV>> = std::iter::once(None).chain(alpha.iter().cloned().map(Some)).collect();
    let per_var: Vec<Option<FV>> = if vars.len() == 3 { per_var.into_iter().enumerate().filter(|(k, _)| [0, 1, 2, 6, 9, 11, 14].contains(k)).map(|(_, v)| v).collect() } else { per_var };
    let adapter = Arc::new(GraphAdapter::new(uni.world.clone(), uni.datasets[0].clone()));
    let mut idx = vec![0usize; vars.len()];
    loop {
        for surplus in [false, true] {
            let mut map: BTreeMap<Arc<str>, FV> = BTreeMap::new();
            let mut want = Named::default();
            for (k, (name, ty)) in vars.iter().enumerate() {
                match &per_var[idx[k]] {
                    None => {
                        want.missing.insert((*name).clone());
                    }
                    Some(v) => {
                        map.insert(Arc::from(name.as_str()), v.clone());
                        if !ty.fits(v) {
                            want.mistyped.insert((*name).clone());
                        }
                    }
                }
            }
            if surplus {
                map.insert(Arc::from("zz_surplus"), i(1));
                want.unused.insert("zz_surplus".into());
            }
            let expect_ok = want.missing.is_empty() && want.unused.is_empty() && want.mistyped.is_empty();
            c.maps.fetch_add(1, Ordering::Relaxed);
            let shown: BTreeMap<String, serde_json::Value> = map.iter().map(|(k, v)| (k.to_string(), show(v))).collect();
            let replay = || json!({"schema_id": "S-verif", "query_text": cq.text, "arguments": shown, "dataset": uni.datasets[0].to_json(), "expected_variable_types": cq.var_types.iter().map(|(k, v)| (k.clone(), v.text())).collect::<BTreeMap<_, _>>()});
            let r = catch(|| interpret_ir(adapter.clone(), cq.iq.clone(), Arc::new(map.clone())).map(|_| ()));
            match r {
                Err(p) => {
                    let mut rep = replay();
                    rep["observed"] = json!({"panic": p.to_json()});
                    rep["expected"] = json!(if expect_ok { "accepted" } else { "refused with an error naming the offending variables" });
                    ctx.fail(&p.key(), &format!("argument validation panicked: {}", p.message.lines().next().unwrap_or("")), rep);
                }
                Ok(Ok(())) => {
                    c.accepted.fetch_add(1, Ordering::Relaxed);
                    if !expect_ok {
                        let mut rep = replay();
                        rep["observed"] = json!("accepted");
                        rep["expected"] = json!({"refused": {"missing": want.missing, "unused": want.unused, "mistyped": want.mistyped}});
                        ctx.fail("accepted-bad-arguments", "an incomplete, surplus or ill-typed argument map was accepted", rep);
                    } else {
                        samples.lock().unwrap().offer(|| json!({"query_text": cq.text, "arguments": shown, "verdict": "accepted"}));
                    }
                }
                Ok(Err(e)) => {
                    c.refused.fetch_add(1, Ordering::Relaxed);
                    let mut got = Named::default();
                    collect(&e, &mut got);
                    if expect_ok {
                        let mut rep = replay();
                        rep["observed"] = json!({"refused": format!("{e}")});
                        rep["expected"] = json!("accepted");
                        ctx.fail("refused-good-arguments", "a complete, well-typed argument map was refused", rep);
                    } else if got.missing != want.missing || got.unused != want.unused || got.mistyped != want.mistyped {
                        let mut rep = replay();
                        rep["observed"] = json!({"missing": got.missing, "unused": got.unused, "mistyped": got.mistyped, "error": format!("{e}")});
                        rep["expected"] = json!({"missing": want.missing, "unused": want.unused, "mistyped": want.mistyped});
                        ctx.fail("error-names-wrong-variables", "the refusal does not name exactly the offending variables", rep);
                    } else if c.refused.load(Ordering::Relaxed) % 400_009 == 3 {
                        samples.lock().unwrap().offer(|| json!({"query_text": cq.text, "arguments": shown, "verdict": format!("{e}")}));
                    }
                }
            }
        }
        // next index vector
        let mut k = 0;
        loop {
            if k == idx.len() {
                return;
            }
            idx[k] += 1;
            if idx[k] < per_var.len() {
                break;
            }
            idx[k] = 0;
            k += 1;
        }
    }
}

pub fn run(ctx: &Ctx) -> ! {
    let uni = Universe::sverif();
    let counters = Counters::default();
    let samples = Mutex::new(Samples::new(5));
    let sigs: Mutex<BTreeSet<String>> = Mutex::new(BTreeSet::new());
    if let Some(path) = &ctx.replay {
        let v: serde_json::Value = serde_json::from_str(&std::fs::read_to_string(path).unwrap_or_else(|e| crate::common::machinery(&format!("{e}")))).unwrap();
        let text = v["query_text"].as_str().unwrap_or_default();
        let map: BTreeMap<Arc<str>, FV> = engine::args_from_json(&v["arguments"]).into_iter().map(|(k, x)| (Arc::from(k.as_str()), x)).collect();
        let iq = match engine::compile(&uni.schema, text) {
            engine::Compiled::Ok(iq) => iq,
            _ => crate::common::machinery("replay query does not compile"),
        };
        let adapter = Arc::new(GraphAdapter::new(uni.world.clone(), uni.datasets[0].clone()));
        let r = catch(|| interpret_ir(adapter, iq, Arc::new(map)).map(|_| ()));
        println!("observed: {:?}", r.map(|x| x.map_err(|e| e.to_string())));
        println!("expected: {}", v["expected"]);
        let mut c = cov();
        c.insert("evaluations".into(), json!(1));
        c.insert("distinct_nontrivial".into(), json!(1));
        ctx.finish("exploration", c, vec![]);
    }
    let mut cfg = CorpusCfg::new(ctx.tier.pick(2, 3));
    cfg.gen.wide_filters = true;
    cfg.gen.naming_devs = false;
    cfg.max_arg_maps = 0;
    // one query per (variable-type signature, feature class) would do for the validator itself, but the
    // variable *types* come from the frontend's inference, so every query is kept.
    let mut uni_one = Universe::sverif();
    uni_one.datasets.truncate(1);
    let stats = corpus::drive(ctx, &uni_one, &cfg, &|cq| check_query(ctx, &uni, cq, &counters, &samples, &sigs), &|_| {}, &|_, _| {});
    let mut cfg_v = corpus::var_reuse_cfg(&uni);
    cfg_v.stream_share = 1.0;
    let stats_v = corpus::drive(ctx, &uni_one, &cfg_v, &|cq| check_query(ctx, &uni, cq, &counters, &samples, &sigs), &|_| {}, &|_, _| {});
    let mut c = cov();
    c.insert("corpus_variable_reuse".into(), stats_v.to_json());
    c.insert("evaluations".into(), json!(counters.maps.load(Ordering::Relaxed)));
    c.insert("distinct_nontrivial".into(), json!(counters.queries.load(Ordering::Relaxed)));
    c.insert("rule".into(), json!("for every accepted query within k deviations having 1..=3 variables: every argument map over {absent} + a 17-value alphabet (null, ints incl. i64::MIN / u64::MAX, float, strings, bool, Enum, empty / int / null / string / mixed / nested lists) per variable (7 values when there are 3 variables), with and without one surplus name; accepted iff complete, no surplus and every value fits the variable type computed from the AST; on refusal the missing / unused / mistyped names must be exactly the offending ones; evaluations = argument maps validated; non-trivial = distinct queries"));
    c.insert("maps_accepted".into(), json!(counters.accepted.load(Ordering::Relaxed)));
    c.insert("maps_refused".into(), json!(counters.refused.load(Ordering::Relaxed)));
    c.insert("distinct_variable_type_signatures".into(), json!(sigs.lock().unwrap().iter().cloned().collect::<Vec<_>>()));
    c.insert("corpus".into(), stats.to_json());
    c.insert("samples".into(), json!(samples.lock().unwrap().items));
    c.insert("exhaustive".into(), json!(!stats.capped && !stats_v.capped));
    ctx.finish(
        "exploration",
        c,
        vec![
            "expected variable types: operator typing rules of docs/.../filter.md intersected over uses (reference::expected_variable_types)".into(),
            "fits(): null iff nullable; Int64/Uint64 fit Int; lists element-wise; Enum fits nothing (the schema language has no enum types)".into(),
        ],
    )
}
