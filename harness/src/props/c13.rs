//! C13 — rows carry exactly the declared outputs, typed as declared. Declared names and types are
//! re-derived from the AST + schema text (never from the IR) and compared with IndexedQuery.outputs;
//! every value of every row is checked against the declared type with an independent `fits`.

use std::{
    collections::{BTreeMap, BTreeSet},
    sync::{
        atomic::{AtomicU64, Ordering},
        Arc, Mutex,
    },
};

use serde_json::json;

use crate::{
    common::{cov, Ctx, Samples},
    corpus::{self, CorpusCfg, Universe},
    engine::{self, Exec},
    graph_adapter::GraphAdapter,
    qast, qgen, reference,
    schema_model::TyRef,
    values::show,
};

pub fn run(ctx: &Ctx) -> ! {
    let uni = Universe::sverif();
    let cfg = CorpusCfg::new(ctx.tier.pick(2, 3));
    let values_checked = AtomicU64::new(0);
    let rows_checked = AtomicU64::new(0);
    let distinct_types: Mutex<BTreeSet<String>> = Mutex::new(BTreeSet::new());
    let distinct: Mutex<BTreeSet<u64>> = Mutex::new(BTreeSet::new());
    let samples = Mutex::new(Samples::new(4));
    let per_query = |cq: &corpus::CompiledQuery| {
            // declared outputs: names and types, AST-derived vs engine-declared
            let want = match reference::declared_outputs(&uni.world.schema, &cq.q) {
                Ok(w) => w,
                Err(_) => return,
            };
            let got: BTreeMap<String, String> = cq.iq.outputs.iter().map(|(k, o)| (k.to_string(), o.value_type.to_string())).collect();
            let want_s: BTreeMap<String, String> = want.iter().map(|(k, t)| (k.clone(), t.text())).collect();
            if got != want_s {
                let key = if got.keys().collect::<Vec<_>>() != want_s.keys().collect::<Vec<_>>() { "declared-output-names" } else { "declared-output-types" };
                ctx.fail(key, "the compiled query's declared outputs differ from what the query text and schema imply", json!({"schema_id": "S-verif", "query_text": cq.text, "expected": want_s, "observed": got}));
            }
            let mut d = distinct_types.lock().unwrap();
            for t in got.values() {
                d.insert(t.clone());
            }
            let f = qast::features(&cq.q);
            if f.fold > 0 && f.optional > 0 {
                samples.lock().unwrap().offer(|| json!({"query_text": cq.text, "declared_outputs": got}));
            }
        };
    let per_case = |case: &corpus::Case<'_>| {
            let adapter = Arc::new(GraphAdapter::new(uni.world.clone(), case.ds.clone()));
            let rows = match engine::execute(adapter, case.cq.iq.clone(), case.args) {
                Exec::Rows(r) => r,
                _ => return,
            };
            let declared: BTreeMap<String, TyRef> = case.cq.iq.outputs.iter().map(|(k, o)| (k.to_string(), TyRef::parse(&o.value_type.to_string()))).collect();
            for row in &rows {
                rows_checked.fetch_add(1, Ordering::Relaxed);
                let keys: BTreeSet<String> = row.keys().map(|k| k.to_string()).collect();
                if keys != declared.keys().cloned().collect() {
                    let mut rep = case.replay();
                    rep["observed"] = json!({"row_keys": keys});
                    rep["expected"] = json!({"declared": declared.keys().collect::<Vec<_>>()});
                    ctx.fail("row-keys-differ-from-declared", "a row does not carry exactly the declared output names", rep);
                    continue;
                }
                for (k, v) in row {
                    values_checked.fetch_add(1, Ordering::Relaxed);
                    let t = &declared[k.as_ref()];
                    if !t.fits(v) {
                        let mut rep = case.replay();
                        rep["observed"] = json!({"output": k.as_ref(), "value": show(v)});
                        rep["expected"] = json!({"declared_type": t.text()});
                        ctx.fail("row-value-does-not-fit-declared-type", &format!("output {k} = {v:?} does not fit declared type {}", t.text()), rep);
                    }
                }
            }
            if !rows.is_empty() {
                distinct.lock().unwrap().insert(crate::common::fnv(format!("{}|{}", case.cq.text, case.ds.name).as_bytes()));
            }
        };
    let mut cfg = cfg;
    cfg.extra.push(("two-edge structures + one deviation of any kind", {
        let mut x = corpus::structures_any_cfg(&uni);
        x.only_datasets = Some(vec!["diamond", "fan3", "counts0123"]);
        x
    }));
    let stats = corpus::drive(ctx, &uni, &cfg, &per_query, &per_case, &|_, _| {});
    // second space: every arrangement of up to three edges (next / one; plain, @optional, @fold,
    // @recurse(2)) each carrying an output, + up to one more deviation: nested folds inside / around
    // optional scopes are 3-4 deviations from the skeleton, where output-type derivation has to
    // place list levels and nullability correctly.
    let cfg_e = qgen::GenCfg { allow: Some(vec!["E"]), e_names: Some(vec!["next", "one"]), e_contents: vec![1], recurse_depths: vec![2], naming_devs: false, max_vertices: 4, ..Default::default() };
    let three: Vec<qast::Query> = qgen::enumerate(&uni.world.schema, &[qgen::skeleton()], 3, &cfg_e).into_iter().skip(3).flatten().collect();
    let mut cfg2 = CorpusCfg::new(ctx.tier.pick(0, 1));
    cfg2.seeds = three;
    cfg2.gen = qgen::GenCfg { allow: Some(vec!["Fco", "Po", "Ae", "C"]), ..Default::default() };
    let mut uni2 = Universe::sverif();
    uni2.datasets.retain(|d| matches!(d.name.as_str(), "diamond" | "fan3" | "chain4" | "twocycle"));
    cfg2.stream_share = 1.0;
    let stats2 = corpus::drive(ctx, &uni2, &cfg2, &per_query, &per_case, &|_, _| {});
    let mut c = cov();
    c.insert("evaluations".into(), json!(values_checked.load(Ordering::Relaxed)));
    c.insert("distinct_nontrivial".into(), json!(distinct.lock().unwrap().len()));
    c.insert("rule".into(), json!("every output value of every row of every (query, dataset, arguments) case; plus, per query, declared output names/types re-derived from the AST and schema text vs IndexedQuery.outputs; distinct = distinct (query, dataset) pairs with at least one row"));
    c.insert("rows_checked".into(), json!(rows_checked.load(Ordering::Relaxed)));
    c.insert("distinct_declared_types".into(), json!(distinct_types.lock().unwrap().iter().collect::<Vec<_>>()));
    c.insert("corpus".into(), stats.to_json());
    c.insert("corpus_three_edge_structures".into(), stats2.to_json());
    c.insert("samples".into(), json!(samples.lock().unwrap().items));
    c.insert("exhaustive".into(), json!(!stats.capped && !stats2.capped));
    ctx.finish("exploration", c, vec!["datasets hold schema-conforming property values (asserted by the dataset conformance check)".into()])
}
