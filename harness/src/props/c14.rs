//! C14 — compilation and execution are deterministic. Environment-choice exploration over the
//! *process hash seed*: a child process (this binary, `C14CHILD`) compiles and executes a corpus
//! and prints section digests plus the iteration orders its Schema hash maps actually had (guarded
//! hook). The parent runs the child under an LD_PRELOAD `getrandom` shim for seeds 0,1,2,... and
//! requires identical digests, reporting how many distinct hash-map orders were covered.

use std::{
    cell::RefCell,
    collections::{BTreeMap, BTreeSet},
    rc::Rc,
    sync::{Arc, Mutex},
};

use rayon::prelude::*;
use serde::Deserialize;
use serde_json::json;
use trustfall_core::{
    interpreter::{ResolveEdgeInfo, ResolveInfo},
    ir::{EdgeParameters, FieldValue as FV},
    schema::Schema,
};

use crate::{
    common::{cov, fnv, Ctx, Samples, Tier},
    corpus::{self, CorpusCfg, Universe},
    engine::{self, Compiled, Exec},
    graph_adapter::{params_map, GraphAdapter, V},
    props::c19,
    reference, schema_gen,
    wrappers::{CallKind, Probe, Probed},
};

pub const SHIM: &str = "/verif/.target/getrandom_shim.so";

const SDET: &str = "schema { query: Q }\ntype Q { a: [Alpha!]! }\ninterface Alpha { x: Int  toB: Beta }\ntype Beta implements Alpha { x: Int  toB: Beta  toG: Gamma }\ntype Gamma { y: String  back: [Alpha!] }\n";

#[derive(Default)]
struct Recorder {
    events: RefCell<Vec<String>>,
}
impl Probe<V> for Recorder {
    fn on_start(&self, call: usize, edge: &str, params: &EdgeParameters, _: &ResolveInfo) {
        self.events.borrow_mut().push(format!("{call}:start:{edge}:{}", reference::params_key(&params_map(params))));
    }
    fn on_property(&self, call: usize, ty: &str, prop: &str, _: &ResolveInfo) {
        self.events.borrow_mut().push(format!("{call}:prop:{ty}.{prop}"));
    }
    fn on_neighbors(&self, call: usize, ty: &str, edge: &str, params: &EdgeParameters, _: &ResolveEdgeInfo) {
        self.events.borrow_mut().push(format!("{call}:nbrs:{ty}.{edge}:{}", reference::params_key(&params_map(params))));
    }
    fn on_coercion(&self, call: usize, ty: &str, to: &str, _: &ResolveInfo) {
        self.events.borrow_mut().push(format!("{call}:coerce:{ty}->{to}"));
    }
    fn on_input(&self, call: usize, _k: CallKind, _ty: &str, _f: &str, v: Option<&V>) {
        self.events.borrow_mut().push(format!("{call}:in:{v:?}"));
    }
    fn on_start_pull(&self, v: &V) {
        self.events.borrow_mut().push(format!("pull:{v:?}"));
    }
}

#[derive(Deserialize)]
struct TestGraphQLQuery {
    schema_name: String,
    query: String,
    #[serde(default)]
    #[allow(dead_code)]
    arguments: BTreeMap<String, FV>,
}

/// Order-insensitive accumulation of per-item digests (items are processed in parallel).
#[derive(Default)]
struct Acc(Mutex<(u64, u64)>);
impl Acc {
    fn add(&self, item: &str) {
        let h = fnv(item.as_bytes());
        let mut g = self.0.lock().unwrap();
        g.0 = g.0.wrapping_add(h);
        g.1 += 1;
    }
    fn get(&self) -> (u64, u64) {
        *self.0.lock().unwrap()
    }
}

fn orders_of(s: &Schema) -> (Vec<String>, u64) {
    let (vt, fields) = s.verif_iteration_orders();
    (vt, fnv(format!("{fields:?}").as_bytes()))
}

/// The child: everything below must print the same digests in every process.
pub fn child(tier: Tier) -> ! {
    let mut sections: BTreeMap<&str, (u64, u64)> = BTreeMap::new();
    let mut orders: BTreeMap<String, serde_json::Value> = BTreeMap::new();
    // children with an odd hash seed do the same work in the opposite order (the digests are
    // order-independent sums): an outcome that depends on what was compiled or constructed earlier in the
    // process (a memo keyed too coarsely, a leaked buffer) then differs between processes
    let reverse = std::env::var("VERIF_HASH_SEED").ok().and_then(|s| s.parse::<u64>().ok()).map(|n| n % 2 == 1).unwrap_or(false);

    // schemas and their hash-map iteration orders in this process
    let sdet = engine::parse_schema(&format!("{}{}", SDET, Schema::ALL_DIRECTIVE_DEFINITIONS));
    let (vt, fh) = orders_of(&sdet);
    orders.insert("S-det".into(), json!({"vertex_types": vt, "fields_hash": fh}));
    let uni = Universe::sverif();
    let (vt, fh) = orders_of(&uni.schema);
    orders.insert("S-verif".into(), json!({"vertex_types": vt, "fields_hash": fh}));
    let numbers_text = std::fs::read_to_string("/repo/trustfall_core/test_data/schemas/numbers.graphql").unwrap_or_default();
    let numbers = engine::parse_schema(&numbers_text);
    let (vt, fh) = orders_of(&numbers);
    orders.insert("numbers".into(), json!({"vertex_types": vt, "fields_hash": fh}));

    // (1) compile the enumerated space (valid and invalid): IR or error text, twice in-process
    let compiled = Acc::default();
    let rows = Acc::default();
    let traces = Acc::default();
    let mut cfg = CorpusCfg::new(tier.pick(2, 2));
    cfg.gen.wide_filters = tier == Tier::Thorough;
    cfg.gen.invalid_devs = true;
    cfg.gen.naming_devs = tier == Tier::Thorough;
    cfg.max_arg_maps = 1;
    cfg.ir_var_types_fallback = true;
    if tier == Tier::Quick {
        // parameter-value variants of the same edge do not add hash-map traffic
        cfg.gen.e_names = Some(vec!["next", "one", "nb", "extra", "up"]);
    }
    let mut uni2 = Universe::sverif();
    uni2.datasets.retain(|d| matches!(d.name.as_str(), "diamond" | "chains"));
    // a run context that never writes evidence
    let ctx = Ctx::new("C14", tier, Some(std::path::PathBuf::from("/dev/null")));
    let repeat_mismatch = Mutex::new(Vec::<String>::new());
    // rejected queries: error text through a separate pass over the same enumeration
    let layers = crate::qgen::enumerate(&uni.world.schema, &crate::qgen::skeletons(), 2, &cfg.gen);
    let mut all: Vec<&crate::qast::Query> = layers.iter().flatten().collect();
    if reverse {
        all.reverse();
    }
    all.par_iter().for_each(|q| {
        let text = q.text();
        let a = match engine::compile(&uni.schema, &text) {
            Compiled::Ok(iq) => format!("ok:{:?}", iq.ir_query),
            Compiled::Err(e) => format!("err:{e}"),
            Compiled::Panic(p) => format!("panic:{}", p.key()),
        };
        let b = match engine::compile(&uni.schema, &text) {
            Compiled::Ok(iq) => format!("ok:{:?}", iq.ir_query),
            Compiled::Err(e) => format!("err:{e}"),
            Compiled::Panic(p) => format!("panic:{}", p.key()),
        };
        if a != b {
            repeat_mismatch.lock().unwrap().push(text.clone());
        }
        compiled.add(&format!("{text}=>{a}"));
    });
    // (1b) the tag-structures space (two edges + up to two tag deviations: several distinct outer
    //      tags imported into one fold, sibling folds importing the same tag, count tags, ...)
    {
        let mut cfg_t = corpus::structures_cfg(&uni, 2, vec!["Pt", "Fct"], 2);
        if tier == Tier::Quick {
            // imported-tag bookkeeping needs a fold
            cfg_t.seeds.retain(|q| crate::qast::features(q).fold > 0);
        }
        let layers = crate::qgen::enumerate(&uni.world.schema, &cfg_t.seeds, 2, &cfg_t.gen);
        layers.par_iter().flatten().for_each(|q| {
            let text = q.text();
            let one = || match engine::compile(&uni.schema, &text) {
                Compiled::Ok(iq) => format!("ok:{:?}", iq.ir_query),
                Compiled::Err(e) => format!("err:{e}"),
                Compiled::Panic(p) => format!("panic:{}", p.key()),
            };
            let (a, b) = (one(), one());
            if a != b {
                repeat_mismatch.lock().unwrap().push(text.clone());
            }
            compiled.add(&format!("{text}=>{a}"));
        });
    }
    // (2) execute with a recording adapter: rows (in order) and the adapter call trace
    let mut cfg_x = CorpusCfg::new(tier.pick(1, 2));
    cfg_x.gen.naming_devs = false;
    cfg_x.max_arg_maps = 1;
    let run_case = |case: &corpus::Case<'_>| {
        let mut obs = vec![];
        for _ in 0..2 {
            let probe = Rc::new(Recorder::default());
            let adapter = Arc::new(Probed::new(GraphAdapter::new(uni.world.clone(), case.ds.clone()), probe.clone()));
            let out = engine::execute(adapter, case.cq.iq.clone(), case.args);
            let r = match &out {
                Exec::Rows(r) => format!("{}", engine::rows_json(r)),
                Exec::ArgError(e) => format!("argerr:{e}"),
                Exec::Panic { rec, .. } => format!("panic:{}", rec.key()),
            };
            let t = probe.events.borrow().join("|");
            obs.push((r, t));
        }
        if obs[0] != obs[1] {
            repeat_mismatch.lock().unwrap().push(case.cq.text.clone());
        }
        rows.add(&format!("{}|{}|{}", case.cq.text, case.ds.name, obs[0].0));
        traces.add(&format!("{}|{}|{}", case.cq.text, case.ds.name, obs[0].1));
    };
    corpus::drive(&ctx, &uni2, &cfg_x, &|_| {}, &run_case, &|_, _| {});
    let cfg_s = {
        let mut c = corpus::structures_cfg(&uni, 1, vec!["Pt", "Fct", "Fcf", "Fco", "C"], 3);
        c.max_arg_maps = 1;
        c
    };
    if tier == Tier::Thorough {
        corpus::drive(&ctx, &uni2, &cfg_s, &|_| {}, &run_case, &|_, _| {});
    }
    sections.insert("compile(S-verif space: IR or error text)", compiled.get());
    sections.insert("execute(rows in order)", rows.get());
    sections.insert("execute(adapter call trace)", traces.get());

    // (3) the repository's own test queries (valid and frontend errors) against their schemas
    let repo = Acc::default();
    let mut schemas: BTreeMap<String, Schema> = BTreeMap::new();
    for dir in ["valid_queries", "frontend_errors", "execution_errors"] {
        let base = format!("/repo/trustfall_core/test_data/tests/{dir}");
        let mut files: Vec<_> = std::fs::read_dir(&base).map(|d| d.filter_map(|e| e.ok()).map(|e| e.path()).filter(|p| p.to_string_lossy().ends_with(".graphql.ron")).collect()).unwrap_or_default();
        files.sort();
        for f in files {
            let Ok(text) = std::fs::read_to_string(&f) else { continue };
            let Ok(t) = ron::from_str::<TestGraphQLQuery>(&text) else { continue };
            let schema = schemas.entry(t.schema_name.clone()).or_insert_with(|| engine::parse_schema(&std::fs::read_to_string(format!("/repo/trustfall_core/test_data/schemas/{}.graphql", t.schema_name)).unwrap_or_default()));
            let a = match engine::compile(schema, &t.query) {
                Compiled::Ok(iq) => format!("ok:{:?}", iq.ir_query),
                Compiled::Err(e) => format!("err:{e}"),
                Compiled::Panic(p) => format!("panic:{}", p.key()),
            };
            repo.add(&format!("{}=>{a}", f.display()));
        }
    }
    sections.insert("compile(repository test queries)", repo.get());
    // (3b) the same queries again in the opposite order (another history of earlier compilations, other
    //      schemas in between): every outcome must be the one of the first pass
    {
        let mut first: Vec<(String, String, String)> = vec![]; // (schema name, query, outcome)
        for dir in ["valid_queries", "frontend_errors", "execution_errors"] {
            let base = format!("/repo/trustfall_core/test_data/tests/{dir}");
            let mut files: Vec<_> = std::fs::read_dir(&base).map(|d| d.filter_map(|e| e.ok()).map(|e| e.path()).filter(|p| p.to_string_lossy().ends_with(".graphql.ron")).collect()).unwrap_or_default();
            files.sort();
            for f in files {
                let Ok(text) = std::fs::read_to_string(&f) else { continue };
                let Ok(t) = ron::from_str::<TestGraphQLQuery>(&text) else { continue };
                let Some(schema) = schemas.get(&t.schema_name) else { continue };
                first.push((t.schema_name.clone(), t.query.clone(), outcome_text(engine::compile(schema, &t.query))));
            }
        }
        for (sn, q, want) in first.iter().rev() {
            // a freshly parsed schema object each time: equal schema text, different object
            let fresh = engine::parse_schema(&std::fs::read_to_string(format!("/repo/trustfall_core/test_data/schemas/{sn}.graphql")).unwrap_or_default());
            if outcome_text(engine::compile(&fresh, q)) != *want {
                repeat_mismatch.lock().unwrap().push(q.clone());
            }
        }
    }

    // (4) schema construction: accepted or the error text, over the C19 family within 1 deviation
    let sch = Acc::default();
    let docs = schema_gen::enumerate(&[schema_gen::skeleton(), schema_gen::skeleton_hierarchy()], tier.pick(1, 2));
    let mut all_docs: Vec<_> = docs.iter().flatten().collect();
    if reverse {
        all_docs.reverse();
    }
    all_docs.iter().for_each(|d| {
        let text = d.text();
        let r = match c19::parse(&text) {
            c19::Parsed::Ok(_) => "ok".to_string(),
            c19::Parsed::Err(e) => format!("err:{e}"),
            c19::Parsed::Panic(p) => format!("panic:{}", p.key()),
        };
        sch.add(&format!("{text}=>{r}"));
    });
    sections.insert("schema construction(C19 family: ok or error text)", sch.get());
    // observation only (not part of the verdict): row order of the introspection adapter
    let intro = {
        let meta = crate::props::c20::meta();
        let schema: &'static Schema = Box::leak(Box::new(numbers));
        let adapter = Arc::new(trustfall_core::schema::SchemaAdapter::new(schema));
        let rows: Vec<String> = trustfall_core::interpreter::execution::interpret_ir(adapter, meta.compiled[0].1.clone(), Arc::new(BTreeMap::new())).map(|it| it.map(|r| format!("{r:?}")).collect()).unwrap_or_default();
        fnv(rows.join("|").as_bytes())
    };
    let out = json!({
        "sections": sections.iter().map(|(k, v)| (k.to_string(), json!({"digest": format!("{:016x}", v.0), "items": v.1}))).collect::<BTreeMap<_, _>>(),
        "orders": orders,
        "in_process_repeat_mismatches": repeat_mismatch.lock().unwrap().len(),
        "introspection_row_order_digest": format!("{intro:016x}"),
    });
    println!("C14CHILD {out}");
    std::process::exit(0);
}

fn outcome_text(c: Compiled) -> String {
    match c {
        Compiled::Ok(iq) => format!("ok:{:?}", iq.ir_query),
        Compiled::Err(e) => format!("err:{e}"),
        Compiled::Panic(p) => format!("panic:{}", p.key()),
    }
}

fn run_child(seed: Option<u64>, tier: Tier) -> Result<serde_json::Value, String> {
    // /proc/self/exe keeps working when the binary on disk is replaced by a rebuild meanwhile
    let exe = if std::path::Path::new("/proc/self/exe").exists() { std::path::PathBuf::from("/proc/self/exe") } else { std::env::current_exe().map_err(|e| e.to_string())? };
    let mut cmd = std::process::Command::new(exe);
    // no wall-clock caps inside the child: a cap that cuts an enumeration short would make the digests
    // depend on machine load (this happened once under heavy load: a false alarm of the machinery)
    cmd.args(["C14CHILD", tier.name()]).env("VERIF_THREADS", "1").env("RAYON_NUM_THREADS", "1").env("VERIF_BUDGET_S", "1000000");
    if let Some(s) = seed {
        cmd.env("LD_PRELOAD", SHIM).env("VERIF_HASH_SEED", s.to_string());
    } else {
        cmd.env_remove("LD_PRELOAD").env_remove("VERIF_HASH_SEED");
    }
    let out = cmd.output().map_err(|e| e.to_string())?;
    let stdout = String::from_utf8_lossy(&out.stdout);
    let line = stdout.lines().find_map(|l| l.strip_prefix("C14CHILD ")).ok_or_else(|| format!("child produced no report (status {:?}): {}", out.status, String::from_utf8_lossy(&out.stderr).chars().take(400).collect::<String>()))?;
    serde_json::from_str(line).map_err(|e| e.to_string())
}

pub fn run(ctx: &Ctx) -> ! {
    if !std::path::Path::new(SHIM).exists() {
        crate::common::machinery(&format!("{SHIM} is missing (setup.sh / ./check build it from harness/shim/getrandom_shim.c)"));
    }
    let max_seeds = ctx.tier.pick(128u64, 600u64);
    let samples = Mutex::new(Samples::new(3));
    let reports: Mutex<BTreeMap<u64, serde_json::Value>> = Mutex::new(BTreeMap::new());
    // seed batches until the S-det permutations are all seen (or the cap is reached)
    let mut next = 0u64;
    let budget = ctx.tier.pick(35.0, 600.0);
    // quick: every relative order of the three non-root types of S-det (6); thorough: every order of all four keys (24)
    let quick = ctx.tier == Tier::Quick;
    let sdet_perms = move |reports: &BTreeMap<u64, serde_json::Value>| -> BTreeSet<String> {
        reports
            .values()
            .map(|r| {
                let order: Vec<String> = r["orders"]["S-det"]["vertex_types"].as_array().map(|a| a.iter().filter_map(|x| x.as_str()).filter(|x| !quick || *x != "Q").map(|x| x.to_string()).collect()).unwrap_or_default();
                order.join(",")
            })
            .collect()
    };
    let wanted = if quick { 6 } else { 24 };
    loop {
        let width = crate::common::threads() as u64;
        let batch: Vec<u64> = (next..(next + width).min(max_seeds)).collect();
        if batch.is_empty() {
            break;
        }
        next += batch.len() as u64;
        batch.par_iter().for_each(|s| match run_child(Some(*s), ctx.tier) {
            Ok(r) => {
                reports.lock().unwrap().insert(*s, r);
            }
            Err(e) => crate::common::machinery(&format!("C14 child for seed {s} failed: {e}")),
        });
        let done = sdet_perms(&reports.lock().unwrap()).len() == wanted;
        let min_seeds = if quick { 16 } else { 32 };
        if (done && next >= min_seeds) || ctx.elapsed() > budget {
            break;
        }
    }
    // the shim must really control the seed: same seed twice => same orders; and two free-running processes
    let extra: Vec<serde_json::Value> = [Some(0u64), None, None].par_iter().map(|s| run_child(*s, ctx.tier).unwrap_or_else(|e| crate::common::machinery(&e))).collect();
    let (again, free1, free2) = (extra[0].clone(), extra[1].clone(), extra[2].clone());
    let reports = reports.into_inner().unwrap();
    if again["orders"] != reports[&0]["orders"] {
        crate::common::machinery("C14: the getrandom shim does not make the hash seed reproducible (same seed, different iteration orders)");
    }
    let mut all: Vec<(String, &serde_json::Value)> = reports.iter().map(|(k, v)| (format!("seed {k}"), v)).collect();
    all.push(("free-running process 1".into(), &free1));
    all.push(("free-running process 2".into(), &free2));
    let reference = &reports[&0];
    let mut matched = 0u64;
    for (name, r) in &all {
        let mut ok = true;
        for (section, v) in reference["sections"].as_object().unwrap() {
            if r["sections"][section] != *v {
                ok = false;
                ctx.fail(&format!("digest-differs:{}", section.split('(').next().unwrap_or("")), &format!("section '{section}' differs between seed 0 and {name}"), json!({"section": section, "process": name, "expected": v, "observed": r["sections"][section], "orders_seed0": reference["orders"], "orders_here": r["orders"], "replay": format!("VERIF_HASH_SEED=<n> LD_PRELOAD={SHIM} tfverif C14CHILD {}", ctx.tier.name())}));
            }
        }
        if r["in_process_repeat_mismatches"].as_u64().unwrap_or(0) > 0 {
            ok = false;
            ctx.fail("in-process-repeat-differs", "the same query or schema compiled, constructed or executed again in one process (directly, or later in another order of the same work) gave different results", json!({"process": name, "observed": r["in_process_repeat_mismatches"]}));
        }
        if ok {
            matched += 1;
        }
    }
    // coverage of hash-map orders
    let perms = sdet_perms(&reports);
    let mut pair_cov = BTreeMap::new();
    for sid in ["S-verif", "numbers"] {
        let mut seen: BTreeSet<(String, String)> = BTreeSet::new();
        let mut keys: BTreeSet<String> = BTreeSet::new();
        for r in reports.values() {
            let order: Vec<String> = r["orders"][sid]["vertex_types"].as_array().map(|a| a.iter().map(|x| x.as_str().unwrap_or("").to_string()).collect()).unwrap_or_default();
            for (i, a) in order.iter().enumerate() {
                keys.insert(a.clone());
                for b in order.iter().skip(i + 1) {
                    seen.insert((a.clone(), b.clone()));
                }
            }
        }
        let total = keys.len() * (keys.len().saturating_sub(1));
        pair_cov.insert(sid, json!({"ordered_pairs_seen": seen.len(), "ordered_pairs_possible": total}));
    }
    let configs: BTreeSet<String> = reports.values().map(|r| r["orders"].to_string()).collect();
    let intro_orders: BTreeSet<String> = all.iter().map(|(_, r)| r["introspection_row_order_digest"].to_string()).collect();
    samples.lock().unwrap().offer(|| json!({"seed": 0, "report": reference}));
    samples.lock().unwrap().offer(|| json!({"seed": 1, "orders": reports.get(&1).map(|r| r["orders"].clone())}));
    let mut c = cov();
    c.insert("states".into(), json!(configs.len()));
    c.insert("transitions".into(), json!(all.len()));
    c.insert("traces_validated_against_impl".into(), json!(matched));
    c.insert("evaluations".into(), json!(all.len()));
    c.insert("distinct_nontrivial".into(), json!(configs.len()));
    c.insert("rule".into(), json!("one child process per hash seed (LD_PRELOAD getrandom shim; seeds 0,1,2,... until every relative iteration order of S-det's vertex types has been seen (quick: the 6 orders of its three non-root types; thorough: all 24 orders of its four keys), at least 16 (quick) / 32 (thorough), at most the tier cap) plus two free-running processes; each child compiles the enumerated query space incl. invalid queries (IR or error text), executes cases with a recording adapter (rows in order + adapter call trace), compiles the repository's own test queries and constructs the C19 schema family (ok or error text), everything twice in-process (the repository's queries also once more in reverse order with freshly parsed schema objects); children with an odd seed do all compile / construct work in the opposite order; all section digests must be identical across processes. states = distinct hash-map iteration-order configurations observed, transitions = processes run"));
    c.insert("seeds_run".into(), json!(reports.len()));
    c.insert("sdet_vertex_type_orders_seen".into(), json!({"seen": perms.len(), "of": wanted}));
    c.insert("vertex_type_order_pair_coverage".into(), json!(pair_cov));
    c.insert("sections".into(), reference["sections"].clone());
    c.insert("introspection_adapter_row_orders_observed (observation, not part of the verdict)".into(), json!(intro_orders.len()));
    c.insert("samples".into(), json!(samples.lock().unwrap().items));
    c.insert("exhaustive".into(), json!(perms.len() == wanted));
    ctx.finish(
        "model_checking",
        c,
        vec![
            "the process hash seed is the only source of nondeterminism in scope (no clocks, threads or I/O order in the engine); it is controlled through getrandom".into(),
            "the introspection adapter iterates a HashMap unsorted; the property conditions on a deterministic adapter, so its row order is observed but not judged".into(),
        ],
    )
}
