//! C15 — recorded traces replay to the same results. For every case of the enumerated space:
//! rows through AdapterTap + tap_results equal the direct rows (as a sequence); the recorded trace
//! survives RON and JSON; replaying the deserialized trace with the repository's TraceReaderAdapter
//! (`assert_interpreted_results`, which has no access to the dataset) reproduces exactly those rows.

use std::{
    cell::RefCell,
    collections::{BTreeMap, BTreeSet},
    rc::Rc,
    sync::{
        atomic::{AtomicU64, Ordering},
        Arc, Mutex,
    },
};

use serde_json::json;
use trustfall_core::{
    interpreter::{
        execution::interpret_ir,
        replay::assert_interpreted_results,
        trace::{tap_results, AdapterTap, Trace, TraceOpContent},
    },
    ir::FieldValue as FV,
};

use crate::{
    common::{catch, cov, Ctx, Samples},
    corpus::{self, Case, CorpusCfg, Universe},
    engine::{self, Exec, Row},
    explorer::Chooser,
    graph_adapter::{GraphAdapter, V},
    props::c02::PollBatcher,
    qast,
};

#[derive(Default)]
pub struct Counters {
    cases: AtomicU64,
    ops: AtomicU64,
    replays: AtomicU64,
    nonempty: AtomicU64,
}

pub fn check_case(ctx: &Ctx, uni: &Universe, case: &Case<'_>, c: &Counters, samples: &Mutex<Samples>) {
    let direct = match engine::execute(Arc::new(GraphAdapter::new(uni.world.clone(), case.ds.clone())), case.cq.iq.clone(), case.args) {
        Exec::Rows(r) => r,
        _ => return, // C09 / C12
    };
    c.cases.fetch_add(1, Ordering::Relaxed);
    let args_map: BTreeMap<String, FV> = case.args.clone();
    // traced execution, under three adapter behaviours: strictly lazy, and order-preserving
    // read-ahead of 2 / of everything *while being polled* (several contexts in flight when outcomes
    // are recorded). Read-ahead at resolver-call time is deliberately not used: the replayer cannot
    // follow an adapter that pulls input before it is polled, and the property does not quantify over
    // adapters (observation recorded in DESIGN.md).
    for batching in [0u8, 2, 3] {
        check_traced(ctx, uni, case, c, samples, &direct, &args_map, batching);
    }
}

#[allow(clippy::too_many_arguments)]
fn check_traced(ctx: &Ctx, uni: &Universe, case: &Case<'_>, c: &Counters, samples: &Mutex<Samples>, direct: &[Row], args_map: &BTreeMap<String, FV>, batching: u8) {
    let direct = direct.to_vec();
    let traced = catch(|| {
        let tracer = Rc::new(RefCell::new(Trace::<V>::new(case.cq.iq.ir_query.clone(), args_map.clone())));
        let inner = PollBatcher { inner: GraphAdapter::new(uni.world.clone(), case.ds.clone()), chooser: Chooser::constant(batching) };
        let tap = Arc::new(AdapterTap::new(inner, tracer));
        let it = interpret_ir(tap.clone(), case.cq.iq.clone(), engine::to_arc_args(case.args)).expect("arguments were accepted a moment ago");
        let rows: Vec<Row> = tap_results(tap.clone(), it).collect();
        let trace = Arc::try_unwrap(tap).ok().expect("the tracing adapter is still referenced after the query finished").finish();
        (rows, trace)
    });
    let (rows_t, trace) = match traced {
        Ok(x) => x,
        Err(p) => {
            let mut rep = case.replay();
            rep["observed"] = p.to_json();
            rep["adapter_read_ahead"] = json!(batching);
            rep["expected"] = json!({"rows": engine::rows_json(&direct)});
            ctx.fail(&format!("tracing-{}", p.key()), "executing through the tracing adapter panicked", rep);
            return;
        }
    };
    if rows_t != direct {
        let mut rep = case.replay();
        rep["observed"] = json!({"rows_through_tap": engine::rows_json(&rows_t)});
        rep["expected"] = json!({"rows": engine::rows_json(&direct)});
        ctx.fail("traced-rows-differ", "rows through the tracing adapter differ from the direct rows", rep);
        return;
    }
    c.ops.fetch_add(trace.ops.len() as u64, Ordering::Relaxed);
    let produced = trace.ops.values().filter(|o| matches!(o.content, TraceOpContent::ProduceQueryResult(_))).count();
    if produced != direct.len() {
        let mut rep = case.replay();
        rep["observed"] = json!({"ProduceQueryResult_ops": produced});
        rep["expected"] = json!({"rows": direct.len()});
        ctx.fail("trace-result-ops", "the trace does not record one ProduceQueryResult per row", rep);
    }
    // serialize / deserialize, then replay without the data source
    // RON is the repository's trace format. JSON is not tried: DataContext holds maps keyed by Eid /
    // FieldRef, which serde_json cannot represent as object keys (a limitation of the format, not a
    // property of trustfall; an earlier version of this check raised a false alarm there).
    let ron_text = ron::ser::to_string(&trace);
    let ron_pretty = if ctx.tier == crate::common::Tier::Thorough { ron::ser::to_string_pretty(&trace, ron::ser::PrettyConfig::default()) } else { Ok(String::new()) };
    let mut formats = vec![("ron", ron_text.as_ref().map_err(|e| e.to_string()).and_then(|t| ron::from_str::<Trace<V>>(t).map_err(|e| e.to_string())))];
    if ctx.tier == crate::common::Tier::Thorough {
        formats.push(("ron-pretty", ron_pretty.as_ref().map_err(|e| e.to_string()).and_then(|t| ron::from_str::<Trace<V>>(t).map_err(|e| e.to_string()))));
    }
    for (fmt, back) in formats {
        let t2 = match back {
            Ok(t) => t,
            Err(e) => {
                let mut rep = case.replay();
                rep["observed"] = json!({"format": fmt, "error": e});
                ctx.fail(&format!("trace-serialization-{fmt}"), "a recorded trace failed to (de)serialize", rep);
                continue;
            }
        };
        if t2 != trace {
            let mut rep = case.replay();
            rep["observed"] = json!({"format": fmt});
            ctx.fail(&format!("trace-roundtrip-{fmt}"), "a recorded trace changed across serialization", rep);
            continue;
        }
        c.replays.fetch_add(1, Ordering::Relaxed);
        if let Err(p) = catch(|| assert_interpreted_results(&t2, &direct, true)) {
            let mut rep = case.replay();
            rep["observed"] = json!({"format": fmt, "adapter_read_ahead": batching, "replay_panic": p.to_json()});
            rep["expected"] = json!({"rows": engine::rows_json(&direct)});
            ctx.fail("replay-differs", "replaying the deserialized trace did not reproduce the recorded rows", rep);
        }
    }
    if !direct.is_empty() {
        let n = c.nonempty.fetch_add(1, Ordering::Relaxed);
        if n % 40_009 == 17 {
            samples.lock().unwrap().offer(|| json!({"query_text": case.cq.text, "dataset": case.ds.name, "arguments": engine::args_json(case.args), "rows": direct.len(), "trace_ops": trace.ops.len(), "trace_ron_bytes": ron_text.as_ref().map(|t| t.len()).unwrap_or(0)}));
        }
    }
}

pub fn run(ctx: &Ctx) -> ! {
    let uni = Universe::sverif();
    let counters = Counters::default();
    let samples = Mutex::new(Samples::new(4));
    if let Some(path) = &ctx.replay {
        let v: serde_json::Value = serde_json::from_str(&std::fs::read_to_string(path).unwrap_or_else(|e| crate::common::machinery(&format!("{e}")))).unwrap();
        let (cq, ds, args) = corpus::case_from_replay(&uni, &v).unwrap_or_else(|e| crate::common::machinery(&e));
        check_case(ctx, &uni, &Case { cq: &cq, ds: &ds, args: &args }, &counters, &samples);
        let mut c = cov();
        c.insert("evaluations".into(), json!(1));
        c.insert("distinct_nontrivial".into(), json!(1));
        ctx.finish("exploration", c, vec![]);
    }
    let distinct: Mutex<BTreeSet<u64>> = Mutex::new(BTreeSet::new());
    let per_case = |case: &Case<'_>| {
        check_case(ctx, &uni, case, &counters, &samples);
        let f = qast::features(&case.cq.q);
        if f.edges > 0 {
            distinct.lock().unwrap().insert(crate::common::fnv(format!("{}|{}", case.cq.text, case.ds.name).as_bytes()));
        }
    };
    let mut cfg = CorpusCfg::new(ctx.tier.pick(2, 3));
    cfg.gen.naming_devs = false;
    cfg.max_arg_maps = ctx.tier.pick(1, 2);
    let mut uni_small = Universe::sverif();
    if ctx.tier == crate::common::Tier::Quick {
        uni_small.datasets.retain(|d| matches!(d.name.as_str(), "diamond" | "chains"));
    }
    let s1 = corpus::drive(ctx, &uni_small, &cfg, &|_| {}, &per_case, &|_, _| {});
    let mut cfg2 = corpus::structures_cfg(&uni, ctx.tier.pick(1, 2), vec!["Pt", "Fct", "Fcf", "Fco", "C"], 4);
    cfg2.max_arg_maps = 1;
    let mut uni2 = Universe::sverif();
    uni2.datasets.retain(|d| matches!(d.name.as_str(), "counts0123"));
    cfg2.stream_share = 1.0;
    let s2 = if ctx.elapsed() < ctx.budget_s() { Some(corpus::drive(ctx, &uni2, &cfg2, &|_| {}, &per_case, &|_, _| {})) } else { None };

    let mut c = cov();
    c.insert("evaluations".into(), json!(counters.replays.load(Ordering::Relaxed)));
    c.insert("distinct_nontrivial".into(), json!(distinct.lock().unwrap().len()));
    c.insert("rule".into(), json!("for every (query, dataset, arguments) case of two enumerated spaces and each of three recorded adapter behaviours (strictly lazy; order-preserving read-ahead of 2; read-ahead of everything): direct rows == rows through AdapterTap + tap_results (sequence); one ProduceQueryResult op per row; the trace through RON (compact and pretty) is equal to the recorded one; assert_interpreted_results(deserialized trace, rows, complete = true) does not panic (the reader adapter has no data source). evaluations = replays; non-trivial = distinct (query, dataset) pairs with at least one edge"));
    c.insert("cases".into(), json!(counters.cases.load(Ordering::Relaxed)));
    c.insert("trace_ops_recorded".into(), json!(counters.ops.load(Ordering::Relaxed)));
    c.insert("cases_with_rows".into(), json!(counters.nonempty.load(Ordering::Relaxed)));
    c.insert("corpus".into(), s1.to_json());
    c.insert("corpus_tag_structures".into(), s2.as_ref().map(|s| s.to_json()).unwrap_or(json!("skipped: time budget used by the first corpus")));
    c.insert("samples".into(), json!(samples.lock().unwrap().items));
    c.insert("exhaustive".into(), json!(!s1.capped && s2.as_ref().map(|s| !s.capped).unwrap_or(false)));
    ctx.finish("exploration", c, vec!["the replay oracle is the repository's own assert_interpreted_results / TraceReaderAdapter, which checks every recorded operation against what the engine does during the replay".into()])
}
