//! C16 — IR, values and types survive serialization round-trips.
//!  (a) every distinct compiled query of the enumerated space: IndexedQuery and IRQuery through RON
//!      and JSON;
//!  (b) every value of the boundary alphabet (nesting <= 3): tagged RON / JSON, and the untagged
//!      JSON form (TransparentValue) and back;
//!  (c) every Type over 3 base names x list depth <= 6 x every nullability mask, plus depths up to
//!      the implementation limit with three mask patterns: serde (RON, JSON) and Display -> parse.

use std::{
    collections::BTreeSet,
    sync::{
        atomic::{AtomicU64, Ordering},
        Arc, Mutex,
    },
};

use serde::{de::DeserializeOwned, Serialize};
use serde_json::json;
use trustfall_core::ir::{FieldValue as FV, IRQuery, IndexedQuery, TransparentValue, Type};

use crate::{
    common::{catch, cov, Ctx, Samples},
    corpus::{self, CorpusCfg, Universe},
    values::{self, list, ref_eq, show},
};

fn via_ron<T: Serialize + DeserializeOwned>(x: &T) -> Result<T, String> {
    let s = ron::ser::to_string(x).map_err(|e| format!("ron serialize: {e}"))?;
    ron::from_str(&s).map_err(|e| format!("ron deserialize: {e} in {}", s.chars().take(200).collect::<String>()))
}
fn via_ron_pretty<T: Serialize + DeserializeOwned>(x: &T) -> Result<T, String> {
    let s = ron::ser::to_string_pretty(x, ron::ser::PrettyConfig::default()).map_err(|e| format!("ron serialize: {e}"))?;
    ron::from_str(&s).map_err(|e| format!("ron deserialize: {e}"))
}
fn via_json<T: Serialize + DeserializeOwned>(x: &T) -> Result<T, String> {
    let s = serde_json::to_string(x).map_err(|e| format!("json serialize: {e}"))?;
    serde_json::from_str(&s).map_err(|e| format!("json deserialize: {e} in {}", s.chars().take(200).collect::<String>()))
}

/// Structural identity (stricter than ==): same variant, same bits for floats.
fn identical(a: &FV, b: &FV) -> bool {
    match (a, b) {
        (FV::Null, FV::Null) => true,
        (FV::Int64(x), FV::Int64(y)) => x == y,
        (FV::Uint64(x), FV::Uint64(y)) => x == y,
        (FV::Float64(x), FV::Float64(y)) => x.to_bits() == y.to_bits(),
        (FV::String(x), FV::String(y)) => x == y,
        (FV::Boolean(x), FV::Boolean(y)) => x == y,
        (FV::Enum(x), FV::Enum(y)) => x == y,
        (FV::List(x), FV::List(y)) => x.len() == y.len() && x.iter().zip(y.iter()).all(|(p, q)| identical(p, q)),
        _ => false,
    }
}

/// The value with every Enum replaced by the String of the same text (the documented loss).
fn enum_to_string(v: &FV) -> FV {
    match v {
        FV::Enum(x) => FV::String(x.clone()),
        FV::List(xs) => list(xs.iter().map(enum_to_string).collect()),
        other => other.clone(),
    }
}

fn contains_enum(v: &FV) -> bool {
    match v {
        FV::Enum(_) => true,
        FV::List(xs) => xs.iter().any(contains_enum),
        _ => false,
    }
}

pub fn value_alphabet(depth3: bool) -> Vec<FV> {
    use values::{i, s, u};
    let mut scalars: Vec<FV> = vec![FV::Null];
    scalars.extend(values::ints());
    scalars.extend(values::floats());
    scalars.extend([FV::Float64(1.0), FV::Float64(1e300), FV::Float64(-1e-300), FV::Float64(9007199254740993.0), FV::Float64(1e19), FV::Float64(-9.3e18)]);
    scalars.extend(values::strings());
    scalars.extend([s("\""), s("\\"), s("\n\t"), s("\u{0}"), s("null"), s("1"), s("𝄞"), s("a b"), s("(")]);
    scalars.extend(values::bools());
    scalars.extend(values::enums());
    let mut out = scalars.clone();
    // depth 1: lists of up to 2 scalars from a reduced base
    let base1: Vec<FV> = vec![FV::Null, i(i64::MIN), i(-1), u(u64::MAX), u(1), FV::Float64(-0.0), FV::Float64(1.0), s(""), s("\""), FV::Boolean(true), FV::Enum(Arc::from("a"))];
    let d1 = values::lists_over(&base1, 2, false);
    out.extend(d1.iter().cloned());
    // depth 2: lists of up to 2 depth-1 lists from a reduced base
    let base2: Vec<FV> = vec![FV::Null, list(vec![]), list(vec![i(1)]), list(vec![FV::Null, u(u64::MAX)]), list(vec![s("a")]), list(vec![FV::Float64(1.0)])];
    let d2 = values::lists_over(&base2, 2, false);
    out.extend(d2.iter().skip(1).cloned());
    if depth3 {
        let base3: Vec<FV> = vec![FV::Null, list(vec![]), list(vec![list(vec![])]), list(vec![list(vec![i(i64::MIN)]), FV::Null]), list(vec![list(vec![u(u64::MAX), FV::Null])])];
        out.extend(values::lists_over(&base3, 2, false).into_iter().skip(1));
    }
    out
}

pub fn type_texts(max_full_depth: usize) -> Vec<String> {
    let mut out = vec![];
    for base in ["Int", "String", "Item"] {
        for d in 0..=max_full_depth {
            for mask in 0u32..(1 << (d + 1)) {
                // bit k of mask = non-null at level k (0 = innermost)
                let mut t = format!("{base}{}", if mask & 1 != 0 { "!" } else { "" });
                for lvl in 1..=d {
                    t = format!("[{t}]{}", if mask & (1 << lvl) != 0 { "!" } else { "" });
                }
                out.push(t);
            }
        }
        for d in [7usize, 15, 28, 29, 30] {
            for pat in 0..3 {
                let nn = |lvl: usize| match pat {
                    0 => false,
                    1 => true,
                    _ => lvl % 2 == 0,
                };
                let mut t = format!("{base}{}", if nn(0) { "!" } else { "" });
                for lvl in 1..=d {
                    t = format!("[{t}]{}", if nn(lvl) { "!" } else { "" });
                }
                out.push(t);
            }
        }
    }
    out
}

pub fn run(ctx: &Ctx) -> ! {
    let uni = Universe::sverif();
    let samples = Mutex::new(Samples::new(6));
    let evals = AtomicU64::new(0);

    // ---- (b) values
    let vals = value_alphabet(true);
    let mut enum_untagged = 0u64;
    for v in &vals {
        let rep = || json!({"value": show(v)});
        for (fmt, r) in [("ron", via_ron(v)), ("ron-pretty", via_ron_pretty(v)), ("json", via_json(v))] {
            evals.fetch_add(1, Ordering::Relaxed);
            match r {
                Ok(back) => {
                    if !(back == *v) || !ref_eq(&back, v) || !identical(&back, v) {
                        let mut rp = rep();
                        rp["format"] = json!(fmt);
                        rp["observed"] = show(&back);
                        ctx.fail(&format!("value-roundtrip-{fmt}"), "a field value changed across tagged serialization", rp);
                    }
                }
                Err(e) => {
                    let mut rp = rep();
                    rp["format"] = json!(fmt);
                    rp["observed"] = json!(e);
                    ctx.fail(&format!("value-roundtrip-{fmt}-error"), "a field value failed to (de)serialize", rp);
                }
            }
        }
        // untagged form
        evals.fetch_add(1, Ordering::Relaxed);
        let tv: TransparentValue = v.clone().into();
        let r = catch(|| via_json(&tv).map(|t| -> FV { t.into() }));
        let direct: FV = TransparentValue::from(v.clone()).into();
        if !identical(&direct, v) {
            ctx.fail("transparent-conversion", "FieldValue -> TransparentValue -> FieldValue changed the value", rep());
        }
        match r {
            Ok(Ok(back)) => {
                if !(back == *v) || !ref_eq(&back, v) {
                    let mut rp = rep();
                    rp["observed"] = show(&back);
                    rp["untagged_json"] = json!(serde_json::to_string(&tv).unwrap_or_default());
                    if contains_enum(v) && ref_eq(&enum_to_string(v), &back) {
                        enum_untagged += 1;
                        ctx.fail("untagged-roundtrip:enum-becomes-string", "an Enum value comes back from the untagged JSON form as a String", rp);
                    } else {
                        ctx.fail("untagged-roundtrip", "a field value changed across the untagged JSON form", rp);
                    }
                }
            }
            Ok(Err(e)) => {
                let mut rp = rep();
                rp["observed"] = json!(e);
                ctx.fail("untagged-roundtrip-error", "a field value failed to round-trip through the untagged JSON form", rp);
            }
            Err(p) => {
                let mut rp = rep();
                rp["observed"] = p.to_json();
                ctx.fail(&p.key(), "panic during untagged conversion", rp);
            }
        }
    }
    samples.lock().unwrap().offer(|| json!({"kind": "value", "value": show(&vals[vals.len() / 2]), "ron": ron::ser::to_string(&vals[vals.len() / 2]).unwrap_or_default(), "untagged_json": serde_json::to_string(&TransparentValue::from(vals[vals.len() / 2].clone())).unwrap_or_default()}));

    // ---- (c) types
    let texts = type_texts(ctx.tier.pick(5, 7));
    let mut types_ok = 0u64;
    let mut parse_refused = 0u64;
    for t in &texts {
        evals.fetch_add(1, Ordering::Relaxed);
        let parsed = match catch(|| Type::parse(t)) {
            Ok(Ok(ty)) => ty,
            Ok(Err(_)) => {
                parse_refused += 1;
                continue;
            }
            Err(p) => {
                ctx.fail(&p.key(), "Type::parse panicked", json!({"type_text": t, "observed": p.to_json()}));
                continue;
            }
        };
        types_ok += 1;
        let shown = parsed.to_string();
        if shown != *t {
            ctx.fail("type-display", "Display of a parsed type differs from the text it was parsed from", json!({"type_text": t, "observed": shown}));
        }
        match Type::parse(&shown) {
            Ok(again) if again == parsed => {}
            other => ctx.fail("type-display-parse", "Display -> parse does not return the same type", json!({"type_text": t, "displayed": shown, "observed": format!("{other:?}")})),
        }
        for (fmt, r) in [("ron", via_ron(&parsed)), ("json", via_json(&parsed))] {
            evals.fetch_add(1, Ordering::Relaxed);
            match r {
                Ok(back) if back == parsed && back.to_string() == *t => {}
                other => ctx.fail(&format!("type-roundtrip-{fmt}"), "a type changed across serialization", json!({"type_text": t, "format": fmt, "observed": format!("{other:?}")})),
            }
        }
        // structural consistency of what was parsed (so that "equal" is not vacuous)
        let depth = t.matches('[').count();
        let mut cur = parsed.clone();
        let mut d = 0;
        while let Some(inner) = cur.as_list() {
            cur = inner;
            d += 1;
        }
        if d != depth || cur.base_type() != t.trim_matches(|c| c == '[' || c == ']' || c == '!') {
            ctx.fail("type-structure", "a parsed type has a different list depth or base than its text", json!({"type_text": t, "observed_depth": d, "observed_base": cur.base_type()}));
        }
    }
    samples.lock().unwrap().offer(|| json!({"kind": "type", "type_text": texts[texts.len() / 3], "json": serde_json::to_string(&Type::parse(&texts[texts.len() / 3]).unwrap()).unwrap_or_default()}));

    // ---- (a) compiled queries
    let mut cfg = CorpusCfg::new(ctx.tier.pick(2, 3));
    cfg.gen.wide_filters = true;
    cfg.max_arg_maps = 0;
    let uni0 = Universe { datasets: vec![], ..Universe::sverif() };
    let distinct: Mutex<BTreeSet<u64>> = Mutex::new(BTreeSet::new());
    let ir_checked = AtomicU64::new(0);
    let per_query = |cq: &corpus::CompiledQuery| {
        let h = crate::common::fnv(format!("{:?}", cq.iq.ir_query).as_bytes());
        if !distinct.lock().unwrap().insert(h) {
            return;
        }
        ir_checked.fetch_add(1, Ordering::Relaxed);
        let iq: &IndexedQuery = &cq.iq;
        let ir: &IRQuery = &cq.iq.ir_query;
        let mut results: Vec<(&str, Result<bool, String>)> = vec![("IRQuery/ron", via_ron(ir).map(|b| b == *ir)), ("IRQuery/json", via_json(ir).map(|b| b == *ir)), ("IndexedQuery/ron", via_ron(iq).map(|b| b == *iq))];
        // re-indexing the round-tripped IRQuery must give the same IndexedQuery
        results.push(("IRQuery/ron -> IndexedQuery", via_ron(ir).and_then(|b| IndexedQuery::try_from(b).map_err(|e| format!("{e:?}"))).map(|b| b == *iq)));
        evals.fetch_add(results.len() as u64, Ordering::Relaxed);
        for (what, r) in results {
            match r {
                Ok(true) => {}
                Ok(false) => ctx.fail(&format!("ir-roundtrip-differs:{what}"), "a compiled query changed across serialization", json!({"schema_id": "S-verif", "query_text": cq.text, "format": what})),
                Err(e) => ctx.fail(&format!("ir-roundtrip-error:{what}"), "a compiled query failed to (de)serialize", json!({"schema_id": "S-verif", "query_text": cq.text, "format": what, "observed": e})),
            }
        }
        if ir_checked.load(Ordering::Relaxed) % 20_011 == 5 {
            samples.lock().unwrap().offer(|| json!({"kind": "compiled query", "query_text": cq.text, "ron_bytes": ron::ser::to_string(iq).map(|s| s.len()).unwrap_or(0)}));
        }
    };
    cfg.stream_share = 1.0;
    let stats = if ctx.replay.is_none() { Some(corpus::drive(ctx, &uni0, &cfg, &per_query, &|_| {}, &|_, _| {})) } else { None };
    let _ = &uni;

    let mut c = cov();
    c.insert("evaluations".into(), json!(evals.load(Ordering::Relaxed)));
    c.insert("distinct_nontrivial".into(), json!(vals.len() as u64 + types_ok + ir_checked.load(Ordering::Relaxed)));
    c.insert("rule".into(), json!("(a) every distinct IR of the enumerated query space: IRQuery via RON and JSON, IndexedQuery via RON, and re-indexing the round-tripped IRQuery; (b) every value of the alphabet (scalars incl. integer / float boundaries, escapes, non-BMP text; lists to nesting 3 with nulls and mixed signedness): RON, pretty RON, JSON (bit-identical), untagged JSON via TransparentValue (equal); (c) every type text over 3 bases x depth <= 5 (quick) / 7 (thorough) x all nullability masks + depths 7,15,28,29,30 x 3 mask patterns: parse, Display, Display->parse, RON, JSON. evaluations = round trips; non-trivial = distinct values + types + IRs"));
    c.insert("values".into(), json!(vals.len()));
    c.insert("types_parsed".into(), json!(types_ok));
    c.insert("type_texts_refused_by_parse".into(), json!(parse_refused));
    c.insert("distinct_ir_checked".into(), json!(ir_checked.load(Ordering::Relaxed)));
    c.insert("enum_values_lost_in_untagged_form".into(), json!(enum_untagged));
    if let Some(s) = &stats {
        c.insert("corpus".into(), s.to_json());
    }
    c.insert("samples".into(), json!(samples.lock().unwrap().items));
    c.insert("exhaustive".into(), json!(stats.as_ref().map(|s| !s.capped).unwrap_or(false)));
    ctx.finish(
        "exploration",
        c,
        vec![
            "supported text formats: RON (the repository's own test-data format) and JSON; IndexedQuery is checked through RON only because its maps are keyed by Vid/Eid".into(),
            "floats are finite (NaN / infinity are not allowed in FieldValue)".into(),
        ],
    )
}
