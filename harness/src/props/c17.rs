//! C17 — type intersection / subtype / nullability-insensitive equality obey the lattice laws;
//! value validity is monotone along the subtype relation. Exhaustive over a finite type family.

use serde_json::json;
use trustfall_core::ir::{FieldValue as FV, Type};

use crate::{
    common::{catch, cov, Ctx, Samples, Tier},
    schema_model::TyRef,
    values::{self, list, show},
};

fn family(max_depth: usize) -> Vec<TyRef> {
    let mut out = vec![];
    for base in ["Int", "String", "Other"] {
        let mut layer: Vec<TyRef> = vec![TyRef::Named(base.into(), true), TyRef::Named(base.into(), false)];
        out.extend(layer.clone());
        for _ in 0..max_depth {
            let mut next = vec![];
            for t in &layer {
                next.push(TyRef::list_of(t.clone(), true));
                next.push(TyRef::list_of(t.clone(), false));
            }
            out.extend(next.clone());
            layer = next;
        }
    }
    out
}

/// reference: `child` is a subtype of (or equal to) `parent`
fn ref_sub(parent: &TyRef, child: &TyRef) -> bool {
    if !parent.nullable() && child.nullable() {
        return false;
    }
    match (parent, child) {
        (TyRef::Named(a, _), TyRef::Named(b, _)) => a == b,
        (TyRef::List(a, _), TyRef::List(b, _)) => ref_sub(a, b),
        _ => false,
    }
}

fn ref_same_shape(a: &TyRef, b: &TyRef) -> bool {
    a.base() == b.base() && a.depth() == b.depth()
}

fn value_space(thorough: bool) -> Vec<FV> {
    let l0 = vec![FV::Null, values::i(1), values::s("a")];
    let mk = |elems: &[FV], max_len: usize| values::lists_over(elems, max_len, false);
    let l1 = mk(&l0, 2);
    let mut e2 = l0.clone();
    e2.extend(l1.clone());
    let l2 = mk(&e2, 2);
    let mut all = l0.clone();
    all.extend(l1.clone());
    all.extend(l2.clone());
    // depth 3: singletons over everything so far, pairs over the shallow part
    let mut l3 = vec![];
    for x in &all {
        l3.push(list(vec![x.clone()]));
    }
    for x in &e2 {
        for y in &e2 {
            l3.push(list(vec![list(vec![x.clone(), y.clone()])]));
        }
    }
    if thorough {
        for x in &l2 {
            for y in &l0 {
                l3.push(list(vec![x.clone(), y.clone()]));
            }
        }
        all.push(values::u(u64::MAX));
        all.push(FV::Float64(1.5));
        all.push(FV::Boolean(true));
    }
    all.extend(l3);
    all
}

pub fn run(ctx: &Ctx) -> ! {
    let thorough = ctx.tier == Tier::Thorough;
    let fam = family(3);
    let tys: Vec<Type> = fam.iter().map(|t| Type::parse(&t.text()).unwrap_or_else(|e| crate::common::machinery(&format!("Type::parse failed on {}: {e}", t.text())))).collect();
    let n = fam.len();
    let mut evals = 0u64;
    let mut nontrivial = 0u64;
    let mut samples = Samples::new(4);

    let show_t = |k: usize| fam[k].text();
    // pair tables from the implementation
    let mut isect: Vec<Vec<Option<Type>>> = vec![vec![None; n]; n];
    let mut sub = vec![vec![false; n]; n]; // sub[p][c] = c is subtype of p
    let mut eqn = vec![vec![false; n]; n];
    for a in 0..n {
        for b in 0..n {
            evals += 1;
            match catch(|| (tys[a].intersect(&tys[b]), tys[a].verif_is_scalar_only_subtype(&tys[b]), tys[a].verif_equal_ignoring_nullability(&tys[b]))) {
                Ok((i, s, e)) => {
                    isect[a][b] = i;
                    sub[a][b] = s;
                    eqn[a][b] = e;
                }
                Err(p) => ctx.fail(&p.key(), "type operation panicked", json!({"a": show_t(a), "b": show_t(b), "panic": p.to_json()})),
            }
        }
    }
    let idx_of = |t: &Type| tys.iter().position(|x| x == t);

    for a in 0..n {
        for b in 0..n {
            let rep = || json!({"a": show_t(a), "b": show_t(b), "intersect": isect[a][b].as_ref().map(|t| t.to_string()), "is_subtype(a, b)": sub[a][b], "equal_ignoring_nullability": eqn[a][b]});
            // subtype relation against the reference
            if sub[a][b] != ref_sub(&fam[a], &fam[b]) {
                ctx.fail("subtype-wrong", "is_scalar_only_subtype disagrees with the reference relation", rep());
            }
            if eqn[a][b] != ref_same_shape(&fam[a], &fam[b]) {
                ctx.fail("eq-ignoring-nullability-wrong", "equal_ignoring_nullability disagrees with 'same base and list depth'", rep());
            }
            if eqn[a][b] != eqn[b][a] {
                ctx.fail("eq-ignoring-nullability-not-symmetric", "equal_ignoring_nullability is not symmetric", rep());
            }
            if sub[a][b] && sub[b][a] && a != b {
                ctx.fail("subtype-not-antisymmetric", "two distinct types are subtypes of each other", rep());
            }
            // intersection
            if isect[a][b] != isect[b][a] {
                ctx.fail("intersect-not-commutative", "a ∩ b differs from b ∩ a", rep());
            }
            match &isect[a][b] {
                None => {
                    if ref_same_shape(&fam[a], &fam[b]) {
                        ctx.fail("intersect-none-wrong", "intersection is None although base type and list depth agree", rep());
                    }
                }
                Some(t) => {
                    nontrivial += (a != b) as u64;
                    if !ref_same_shape(&fam[a], &fam[b]) {
                        ctx.fail("intersect-some-wrong", "intersection exists although base type or list depth differ", rep());
                    }
                    let want = fam[a].meet(&fam[b]);
                    if want.as_ref().map(|w| w.text()) != Some(t.to_string()) {
                        ctx.fail("intersect-not-glb", "intersection is not the greatest common subtype", json!({"a": show_t(a), "b": show_t(b), "observed": t.to_string(), "expected": want.map(|w| w.text())}));
                    }
                    match idx_of(t) {
                        None => ctx.fail("intersect-outside-family", "intersection left the closed type family", rep()),
                        Some(k) => {
                            if !(sub[a][k] && sub[b][k]) {
                                ctx.fail("intersect-not-subtype", "intersection is not a subtype of both inputs", rep());
                            }
                            // greatest: every common subtype in the family is a subtype of the result
                            for c in 0..n {
                                if sub[a][c] && sub[b][c] && !sub[k][c] {
                                    ctx.fail("intersect-not-greatest", "a common subtype is not below the intersection", json!({"a": show_t(a), "b": show_t(b), "intersect": show_t(k), "common_subtype": show_t(c)}));
                                }
                            }
                        }
                    }
                }
            }
        }
        if !sub[a][a] {
            ctx.fail("subtype-not-reflexive", "type is not a subtype of itself", json!({"a": show_t(a)}));
        }
        if isect[a][a].as_ref() != Some(&tys[a]) {
            ctx.fail("intersect-not-idempotent", "a ∩ a differs from a", json!({"a": show_t(a)}));
        }
        if !eqn[a][a] {
            ctx.fail("eq-ignoring-nullability-not-reflexive", "", json!({"a": show_t(a)}));
        }
    }

    // triples: transitivity and associativity
    for a in 0..n {
        for b in 0..n {
            for c in 0..n {
                evals += 1;
                if sub[a][b] && sub[b][c] && !sub[a][c] {
                    ctx.fail("subtype-not-transitive", "", json!({"a": show_t(a), "b": show_t(b), "c": show_t(c)}));
                }
                if eqn[a][b] && eqn[b][c] && !eqn[a][c] {
                    ctx.fail("eq-ignoring-nullability-not-transitive", "", json!({"a": show_t(a), "b": show_t(b), "c": show_t(c)}));
                }
                let left = isect[a][b].as_ref().and_then(|t| idx_of(t)).and_then(|k| isect[k][c].clone());
                let right = isect[b][c].as_ref().and_then(|t| idx_of(t)).and_then(|k| isect[a][k].clone());
                if left != right {
                    ctx.fail("intersect-not-associative", "(a ∩ b) ∩ c differs from a ∩ (b ∩ c)", json!({"a": show_t(a), "b": show_t(b), "c": show_t(c), "left": left.as_ref().map(|t| t.to_string()), "right": right.as_ref().map(|t| t.to_string())}));
                }
                if a == 7 && b == 40 && c % 29 == 0 {
                    samples.offer(|| json!({"a": show_t(a), "b": show_t(b), "c": show_t(c), "(a∩b)∩c": left.as_ref().map(|t| t.to_string())}));
                }
            }
        }
    }

    // value validity: agreement with the independent `fits`, and monotonicity along subtyping
    let vals = value_space(thorough);
    let mut valid = vec![vec![false; vals.len()]; n];
    for t in 0..n {
        for (k, v) in vals.iter().enumerate() {
            evals += 1;
            match catch(|| tys[t].is_valid_value(v)) {
                Ok(x) => {
                    valid[t][k] = x;
                    if x != fam[t].fits(v) {
                        ctx.fail("is-valid-value-wrong", "is_valid_value disagrees with the reference typing of values", json!({"type": show_t(t), "value": show(v), "observed": x}));
                    }
                }
                Err(p) => ctx.fail(&p.key(), "is_valid_value panicked", json!({"type": show_t(t), "value": show(v), "panic": p.to_json()})),
            }
        }
    }
    let mut mono_pairs = 0u64;
    for p in 0..n {
        for c in 0..n {
            if sub[p][c] {
                mono_pairs += 1;
                for k in 0..vals.len() {
                    if valid[c][k] && !valid[p][k] {
                        ctx.fail("validity-not-monotone", "a value valid for a type is not valid for its supertype", json!({"subtype": show_t(c), "supertype": show_t(p), "value": show(&vals[k])}));
                    }
                }
            }
        }
    }
    samples.offer(|| json!({"type": show_t(17), "value": show(&vals[vals.len() / 2]), "valid": valid[17][vals.len() / 2]}));
    samples.offer(|| json!({"family_sample": (0..n).step_by(11).map(show_t).collect::<Vec<_>>()}));

    let mut c = cov();
    c.insert("evaluations".into(), json!(evals));
    c.insert("distinct_nontrivial".into(), json!(nontrivial));
    c.insert("rule".into(), json!("all pairs and triples of the 90-type family (3 base names x list depth <= 3 x every nullability mask) and all (type, value) pairs over nested values to depth 3; non-trivial = ordered pairs of distinct types whose intersection exists"));
    c.insert("types".into(), json!(n));
    c.insert("values".into(), json!(vals.len()));
    c.insert("subtype_pairs_checked_for_monotonicity".into(), json!(mono_pairs));
    c.insert("samples".into(), json!(samples.items));
    c.insert("exhaustive".into(), json!(true));
    ctx.finish("exploration", c, vec!["list depth <= 3 and three base names stand for all types (the operations recurse uniformly on depth)".into()])
}
