//! C18 — decoding rows (and edge parameters) into structs is faithful. Every value of the boundary
//! alphabet (nesting <= 2) x a family of target field types compiled into the harness, through
//! `TryIntoStruct` for both `BTreeMap<Arc<str>, FieldValue>` rows and `&EdgeParameters`.
//! Oracle: an independent `expect(value, target)`.

use std::{collections::BTreeMap, fmt::Debug, sync::Arc};

use serde::{de::DeserializeOwned, Deserialize};
use serde_json::json;
use trustfall_core::{
    ir::{EdgeParameters, FieldValue as FV},
    TryIntoStruct,
};

use crate::{
    common::{catch, cov, Ctx, Samples},
    values::{self, int_of, list, show},
};

#[derive(Debug, Clone, PartialEq)]
pub enum Expect<T> {
    /// representable: must decode to exactly this
    Exactly(T),
    /// no value of the target type equals the row's value (integer out of range, wrong kind): must be an error
    ErrRequired,
    /// cross-kind conversion the statement does not define: an error, or exactly this
    ErrOrExactly(T),
    /// an integer the float target cannot hold exactly: an error is required; decoding to this
    /// nearest float is the known finding `int-into-float-field-silently-rounded`
    Rounded(T),
    /// outside the statement (float narrowing): anything but a panic
    Any,
}

impl<T> Expect<T> {
    fn map<U>(self, f: impl FnOnce(T) -> U) -> Expect<U> {
        match self {
            Expect::Exactly(x) => Expect::Exactly(f(x)),
            Expect::ErrOrExactly(x) => Expect::ErrOrExactly(f(x)),
            Expect::Rounded(x) => Expect::Rounded(f(x)),
            Expect::ErrRequired => Expect::ErrRequired,
            Expect::Any => Expect::Any,
        }
    }
}

pub trait Target: DeserializeOwned + Debug + PartialEq + Clone {
    const NAME: &'static str;
    fn expect(v: &FV) -> Expect<Self>;
    /// bit-exact comparison for floats
    fn same(a: &Self, b: &Self) -> bool {
        a == b
    }
}

macro_rules! int_target {
    ($t:ty) => {
        impl Target for $t {
            const NAME: &'static str = stringify!($t);
            fn expect(v: &FV) -> Expect<Self> {
                match int_of(v) {
                    Some(n) => match <$t>::try_from(n) {
                        Ok(x) => Expect::Exactly(x),
                        Err(_) => Expect::ErrRequired,
                    },
                    None => match v {
                        // a float holding an integral value: conversion undefined by the statement
                        FV::Float64(f) if f.fract() == 0.0 && *f >= <$t>::MIN as f64 && *f <= <$t>::MAX as f64 && (*f as $t) as f64 == *f => Expect::ErrOrExactly(*f as $t),
                        _ => Expect::ErrRequired,
                    },
                }
            }
        }
    };
}
int_target!(i8);
int_target!(i16);
int_target!(i32);
int_target!(i64);
int_target!(isize);
int_target!(u8);
int_target!(u16);
int_target!(u32);
int_target!(u64);
int_target!(usize);
int_target!(i128);
int_target!(u128);

impl Target for f64 {
    const NAME: &'static str = "f64";
    fn expect(v: &FV) -> Expect<Self> {
        match v {
            FV::Float64(x) => Expect::Exactly(*x),
            _ => match int_of(v) {
                // an integer into a float field: exact values may be converted; inexact ones must not
                // come back as a different number (the statement: never silently truncated)
                Some(n) => {
                    let f = n as f64;
                    if f as i128 == n && (f.abs() < 1.9e19) {
                        Expect::ErrOrExactly(f)
                    } else {
                        Expect::Rounded(f)
                    }
                }
                None => Expect::ErrRequired,
            },
        }
    }
    fn same(a: &Self, b: &Self) -> bool {
        a.to_bits() == b.to_bits()
    }
}

impl Target for f32 {
    const NAME: &'static str = "f32";
    fn expect(v: &FV) -> Expect<Self> {
        match v {
            FV::Float64(x) => {
                if (*x as f32) as f64 == *x {
                    Expect::Exactly(*x as f32)
                } else {
                    Expect::Any // float narrowing: outside the statement's wording (reported separately)
                }
            }
            _ => match int_of(v) {
                Some(n) => {
                    let f = n as f32;
                    if f.is_finite() && f as i128 == n {
                        Expect::ErrOrExactly(f)
                    } else {
                        Expect::Rounded(f)
                    }
                }
                None => Expect::ErrRequired,
            },
        }
    }
    fn same(a: &Self, b: &Self) -> bool {
        a.to_bits() == b.to_bits()
    }
}

impl Target for String {
    const NAME: &'static str = "String";
    fn expect(v: &FV) -> Expect<Self> {
        match v {
            FV::String(s) => Expect::Exactly(s.to_string()),
            FV::Enum(_) => Expect::Any,
            _ => Expect::ErrRequired,
        }
    }
}

impl Target for bool {
    const NAME: &'static str = "bool";
    fn expect(v: &FV) -> Expect<Self> {
        match v {
            FV::Boolean(b) => Expect::Exactly(*b),
            _ => Expect::ErrRequired,
        }
    }
}

impl Target for char {
    const NAME: &'static str = "char";
    fn expect(v: &FV) -> Expect<Self> {
        match v {
            FV::String(s) if s.chars().count() == 1 => Expect::Exactly(s.chars().next().unwrap()),
            FV::Enum(_) => Expect::Any,
            _ => Expect::ErrRequired,
        }
    }
}

impl<T: Target> Target for Option<T> {
    const NAME: &'static str = "Option<_>";
    fn expect(v: &FV) -> Expect<Self> {
        match v {
            FV::Null => Expect::Exactly(None),
            _ => T::expect(v).map(Some),
        }
    }
    fn same(a: &Self, b: &Self) -> bool {
        match (a, b) {
            (Some(x), Some(y)) => T::same(x, y),
            (None, None) => true,
            _ => false,
        }
    }
}

impl<T: Target> Target for Vec<T> {
    const NAME: &'static str = "Vec<_>";
    fn expect(v: &FV) -> Expect<Self> {
        match v {
            FV::List(xs) => {
                let mut out = vec![];
                let mut weakest = 0; // 0 exact, 1 err-or-exact, 2 rounded, 3 any
                for x in xs.iter() {
                    match T::expect(x) {
                        Expect::Exactly(t) => out.push(t),
                        Expect::ErrOrExactly(t) => {
                            out.push(t);
                            weakest = weakest.max(1);
                        }
                        Expect::Rounded(t) => {
                            out.push(t);
                            weakest = weakest.max(2);
                        }
                        Expect::ErrRequired => return Expect::ErrRequired,
                        Expect::Any => weakest = 3,
                    }
                }
                match weakest {
                    0 => Expect::Exactly(out),
                    1 => Expect::ErrOrExactly(out),
                    2 => Expect::Rounded(out),
                    _ => Expect::Any,
                }
            }
            FV::Enum(_) => Expect::Any,
            _ => Expect::ErrRequired,
        }
    }
    fn same(a: &Self, b: &Self) -> bool {
        a.len() == b.len() && a.iter().zip(b.iter()).all(|(x, y)| T::same(x, y))
    }
}

impl<T: Target> Target for (T,) {
    const NAME: &'static str = "(_,)";
    fn expect(v: &FV) -> Expect<Self> {
        match v {
            FV::List(xs) if xs.len() == 1 => T::expect(&xs[0]).map(|a| (a,)),
            FV::Enum(_) => Expect::Any,
            _ => Expect::ErrRequired,
        }
    }
    fn same(a: &Self, b: &Self) -> bool {
        T::same(&a.0, &b.0)
    }
}

impl<T: Target, U: Target, W: Target> Target for (T, U, W) {
    const NAME: &'static str = "(_, _, _)";
    fn expect(v: &FV) -> Expect<Self> {
        match v {
            FV::List(xs) if xs.len() == 3 => {
                // via the pair rule: ((a, b), c)
                let ab = <(T, U)>::expect(&FV::List(vec![xs[0].clone(), xs[1].clone()].into()));
                match (ab, W::expect(&xs[2])) {
                    (Expect::ErrRequired, _) | (_, Expect::ErrRequired) => Expect::ErrRequired,
                    (Expect::Any, _) | (_, Expect::Any) => Expect::Any,
                    (Expect::Exactly((a, b)), Expect::Exactly(c)) => Expect::Exactly((a, b, c)),
                    (Expect::Rounded((a, b)), Expect::Exactly(c) | Expect::ErrOrExactly(c) | Expect::Rounded(c)) | (Expect::Exactly((a, b)) | Expect::ErrOrExactly((a, b)), Expect::Rounded(c)) => Expect::Rounded((a, b, c)),
                    (Expect::Exactly((a, b)) | Expect::ErrOrExactly((a, b)), Expect::Exactly(c) | Expect::ErrOrExactly(c)) => Expect::ErrOrExactly((a, b, c)),
                }
            }
            FV::Enum(_) => Expect::Any,
            _ => Expect::ErrRequired,
        }
    }
    fn same(a: &Self, b: &Self) -> bool {
        T::same(&a.0, &b.0) && U::same(&a.1, &b.1) && W::same(&a.2, &b.2)
    }
}

impl<T: Target> Target for [T; 2] {
    const NAME: &'static str = "[_; 2]";
    fn expect(v: &FV) -> Expect<Self> {
        <(T, T)>::expect(v).map(|(a, b)| [a, b])
    }
    fn same(a: &Self, b: &Self) -> bool {
        T::same(&a[0], &b[0]) && T::same(&a[1], &b[1])
    }
}

impl<T: Target, U: Target> Target for (T, U) {
    const NAME: &'static str = "(_, _)";
    fn expect(v: &FV) -> Expect<Self> {
        match v {
            FV::List(xs) if xs.len() == 2 => match (T::expect(&xs[0]), U::expect(&xs[1])) {
                (Expect::ErrRequired, _) | (_, Expect::ErrRequired) => Expect::ErrRequired,
                (Expect::Any, _) | (_, Expect::Any) => Expect::Any,
                (Expect::Exactly(a), Expect::Exactly(b)) => Expect::Exactly((a, b)),
                (Expect::Rounded(a), Expect::Exactly(b) | Expect::ErrOrExactly(b) | Expect::Rounded(b)) | (Expect::Exactly(a) | Expect::ErrOrExactly(a), Expect::Rounded(b)) => Expect::Rounded((a, b)),
                (Expect::Exactly(a) | Expect::ErrOrExactly(a), Expect::Exactly(b) | Expect::ErrOrExactly(b)) => Expect::ErrOrExactly((a, b)),
            },
            FV::Enum(_) => Expect::Any,
            _ => Expect::ErrRequired,
        }
    }
    fn same(a: &Self, b: &Self) -> bool {
        T::same(&a.0, &b.0) && U::same(&a.1, &b.1)
    }
}

#[derive(Debug, Clone, PartialEq, Deserialize)]
struct One<T> {
    a: T,
}

#[derive(Debug, Clone, PartialEq, Deserialize)]
struct Two<T, U> {
    a: T,
    b: Option<U>,
}

pub fn make_params(m: &BTreeMap<Arc<str>, FV>) -> EdgeParameters {
    let contents: serde_json::Map<String, serde_json::Value> = m.iter().map(|(k, v)| (k.to_string(), serde_json::to_value(v).unwrap())).collect();
    serde_json::from_value(json!({ "contents": contents })).unwrap_or_else(|e| crate::common::machinery(&format!("cannot build EdgeParameters: {e}")))
}

struct Tally {
    evals: u64,
    exact: u64,
    errs: u64,
    float_narrowing_observations: u64,
    by_target: BTreeMap<String, u64>,
}

fn judge<T: Target>(ctx: &Ctx, tally: &mut Tally, source: &str, target: &str, v: &FV, got: Result<Result<T, String>, crate::common::PanicRec>, samples: &mut Samples) {
    tally.evals += 1;
    *tally.by_target.entry(target.to_string()).or_insert(0) += 1;
    let want = T::expect(v);
    let rep = |obs: serde_json::Value| json!({"value": show(v), "target_type": target, "source": source, "expected": format!("{want:?}"), "observed": obs});
    match got {
        Err(p) => {
            let key = if format!("{v:?}").contains("Enum(") && p.message.contains("not yet implemented") && p.file.ends_with("serialization/deserializers.rs") { "panic:enum-value-todo".to_string() } else { p.key() };
            ctx.fail(&key, &format!("decoding panicked: {}", p.message.lines().next().unwrap_or("")), rep(p.to_json()));
        }
        Ok(Ok(x)) => match &want {
            Expect::Exactly(w) | Expect::ErrOrExactly(w) => {
                if T::same(&x, w) {
                    tally.exact += 1;
                    if tally.exact % 1500 == 1 {
                        samples.offer(|| json!({"value": show(v), "target_type": target, "source": source, "decoded": format!("{x:?}")}));
                    }
                } else {
                    ctx.fail("decoded-different-value", "decoding returned a value different from the row's value", rep(json!(format!("Ok({x:?})"))));
                }
            }
            Expect::Rounded(w) => {
                let key = if T::same(&x, w) { "int-into-float-field-silently-rounded" } else { "decoded-different-value" };
                ctx.fail(key, "an integer that the float field cannot hold exactly was decoded instead of refused", rep(json!(format!("Ok({x:?})"))));
            }
            Expect::ErrRequired => {
                let is_int = int_of(v).is_some() || matches!(v, FV::List(xs) if xs.iter().any(|e| int_of(e).is_some()));
                let key = if is_int { "integer-out-of-range-accepted" } else { "wrong-kind-accepted" };
                ctx.fail(key, "decoding succeeded although no value of the target type equals the row's value", rep(json!(format!("Ok({x:?})"))));
            }
            Expect::Any => {
                tally.float_narrowing_observations += 1;
            }
        },
        Ok(Err(_)) => match &want {
            Expect::Exactly(_) => ctx.fail("representable-value-refused", "a representable value failed to decode", rep(json!(got_err(&got)))),
            _ => tally.errs += 1,
        },
    }
}

fn got_err<T>(g: &Result<Result<T, String>, crate::common::PanicRec>) -> String {
    match g {
        Ok(Err(e)) => e.clone(),
        _ => String::new(),
    }
}

fn check_target<T: Target>(ctx: &Ctx, tally: &mut Tally, name: &str, vals: &[FV], samples: &mut Samples) {
    for v in vals {
        // row
        let row: BTreeMap<Arc<str>, FV> = [(Arc::from("a"), v.clone()), (Arc::from("zz_extra"), FV::Int64(7))].into_iter().collect();
        let r = catch(|| row.clone().try_into_struct::<One<T>>().map(|o| o.a).map_err(|e| e.to_string()));
        judge::<T>(ctx, tally, "row", name, v, r, samples);
        // edge parameters
        let params = make_params(&[(Arc::from("a"), v.clone())].into_iter().collect());
        let r = catch(|| (&params).try_into_struct::<One<T>>().map(|o| o.a).map_err(|e| e.to_string()));
        judge::<T>(ctx, tally, "edge-parameters", name, v, r, samples);
    }
}

pub fn run(ctx: &Ctx) -> ! {
    use values::{i, s, u};
    let mut scalars: Vec<FV> = vec![FV::Null];
    scalars.extend(values::ints());
    scalars.extend([i(127), i(128), i(-128), i(-129), i(255), i(256), i(32767), i(32768), i(65535), i(65536), i(i32::MAX as i64), i(i32::MAX as i64 + 1), i(i32::MIN as i64), i(i32::MIN as i64 - 1), u(u32::MAX as u64), u(u32::MAX as u64 + 1), i(1 << 24), i((1 << 24) + 1), i(1 << 53), i((1 << 53) + 1), u((1 << 53) + 1), i(-(1 << 53) - 1), u(u64::MAX - 1)]);
    scalars.extend(values::floats());
    scalars.extend([FV::Float64(1.0), FV::Float64(1e300), FV::Float64(0.1), FV::Float64(16777217.0), FV::Float64(-3.0), FV::Float64(300.0)]);
    scalars.extend(values::strings());
    scalars.extend([s("x"), s("é"), s("12")]);
    scalars.extend(values::bools());
    scalars.extend(values::enums());
    let mut vals = scalars.clone();
    let base1: Vec<FV> = vec![FV::Null, i(-1), i(1), i(300), u(u64::MAX), i((1 << 53) + 1), FV::Float64(1.5), s("a"), FV::Boolean(true)];
    vals.extend(values::lists_over(&base1, 2, false));
    // lists of length 3 (longer than every pair target, exactly a triple) over a reduced base
    let base3: Vec<FV> = vec![FV::Null, i(1), i(300), s("a"), FV::Boolean(true)];
    vals.extend(values::lists_over(&base3, 3, false).into_iter().filter(|l| matches!(l, FV::List(x) if x.len() == 3)));
    let base2: Vec<FV> = vec![FV::Null, list(vec![]), list(vec![i(1)]), list(vec![i(300), FV::Null]), list(vec![s("a")])];
    if ctx.tier == crate::common::Tier::Thorough {
        vals.extend(values::lists_over(&base2, 2, false).into_iter().skip(1));
    } else {
        vals.extend(values::lists_over(&base2, 1, false).into_iter().skip(1));
    }

    vals.push(list(vec![list(vec![i(1), i(2)]), list(vec![i(3), i(4), i(5)])]));
    vals.push(list(vec![list(vec![i(1), i(2), i(3)])]));
    vals.push(list(vec![list(vec![i(1), s("a")]), FV::Null, list(vec![i(2), s("b"), s("c")])]));
    vals.push(list(vec![i(1), i(2), i(3), i(4)]));
    let mut tally = Tally { evals: 0, exact: 0, errs: 0, float_narrowing_observations: 0, by_target: BTreeMap::new() };
    let mut samples = Samples::new(8);
    macro_rules! t {
        ($ty:ty) => {
            check_target::<$ty>(ctx, &mut tally, stringify!($ty), &vals, &mut samples);
        };
    }
    t!(i8);
    t!(i16);
    t!(i32);
    t!(i64);
    t!(isize);
    t!(i128);
    t!(u8);
    t!(u16);
    t!(u32);
    t!(u64);
    t!(usize);
    t!(u128);
    t!(f32);
    t!(f64);
    t!(String);
    t!(bool);
    t!(char);
    t!(Option<i8>);
    t!(Option<u64>);
    t!(Option<i64>);
    t!(Option<String>);
    t!(Option<f64>);
    t!(Option<bool>);
    t!(Vec<i8>);
    t!(Vec<u8>);
    t!(Vec<i64>);
    t!(Vec<u64>);
    t!(Vec<u16>);
    t!(Vec<f64>);
    t!(Vec<String>);
    t!(Vec<Option<i32>>);
    t!(Vec<Option<String>>);
    t!(Option<Vec<u32>>);
    t!(Vec<Vec<i16>>);
    t!(Vec<Vec<Option<u8>>>);
    t!((i8, u64));
    t!((String, bool));
    t!((i64, Option<f64>));
    t!(Vec<(u8, i16)>);
    t!((i16,));
    t!((i8, u64, bool));
    t!((Option<i64>, String, Option<u8>));
    t!([i16; 2]);
    t!([Option<u64>; 2]);
    t!(Option<(i8, u8)>);
    t!(Vec<[i64; 2]>);
    t!(Vec<Option<(i16, String)>>);

    // multi-field rows: missing optional field, extra keys, every pair of (a: i16, b: Option<u8>) over the integer boundary values
    let ints: Vec<FV> = scalars.iter().filter(|v| int_of(v).is_some()).cloned().collect();
    let mut multi = 0u64;
    for a in &ints {
        for b in ints.iter().map(Some).chain([None]) {
            multi += 1;
            let mut row: BTreeMap<Arc<str>, FV> = [(Arc::from("a"), a.clone()), (Arc::from("other"), s("ignored"))].into_iter().collect();
            if let Some(b) = b {
                row.insert(Arc::from("b"), b.clone());
            }
            let r = catch(|| row.clone().try_into_struct::<Two<i16, u8>>().map_err(|e| e.to_string()));
            let wa = <i16 as Target>::expect(a);
            let wb = match b {
                Some(b) => <Option<u8> as Target>::expect(b),
                None => Expect::Exactly(None),
            };
            let rep = |obs: String| json!({"row": row.iter().map(|(k, v)| (k.to_string(), show(v))).collect::<BTreeMap<_, _>>(), "target_type": "struct { a: i16, b: Option<u8> }", "expected": format!("a: {wa:?}, b: {wb:?}"), "observed": obs});
            match (r, &wa, &wb) {
                (Err(p), _, _) => ctx.fail(&p.key(), "decoding panicked", rep(p.message.clone())),
                (Ok(Ok(t)), Expect::Exactly(x), Expect::Exactly(y)) => {
                    if t.a != *x || t.b != *y {
                        ctx.fail("decoded-different-value", "struct decoding returned different values", rep(format!("{t:?}")));
                    }
                }
                (Ok(Ok(t)), _, _) => ctx.fail("integer-out-of-range-accepted", "struct decoding succeeded with an out-of-range integer", rep(format!("{t:?}"))),
                (Ok(Err(e)), Expect::Exactly(_), Expect::Exactly(_)) => ctx.fail("representable-value-refused", "struct decoding failed for representable values", rep(e)),
                (Ok(Err(_)), _, _) => {}
            }
        }
    }

    let mut c = cov();
    c.insert("evaluations".into(), json!(tally.evals + multi));
    c.insert("distinct_nontrivial".into(), json!(tally.exact + tally.errs));
    c.insert("rule".into(), json!("every value of the alphabet (null, integers at every i8..u64 / f32 / f64 exactness boundary, floats, strings, booleans, enums, lists to nesting 2 and length 3 / 4) x 47 target field types (all integer widths, floats, String, bool, char, Option, Vec, tuples, nested) decoded from a row (with an extra key) and from edge parameters; plus every pair of boundary integers into struct { a: i16, b: Option<u8> } with b possibly absent. Oracle: independent expect(value, target): representable => exactly that value (floats bit-exact); integer out of range or wrong kind => error; cross-kind exact conversions => error or exact; float narrowing => any (counted). non-trivial = decodings that returned the exact value or a required error"));
    c.insert("values".into(), json!(vals.len()));
    c.insert("decoded_exactly".into(), json!(tally.exact));
    c.insert("errors_returned".into(), json!(tally.errs));
    c.insert("float_narrowing_observations_outside_statement".into(), json!(tally.float_narrowing_observations));
    c.insert("multi_field_rows".into(), json!(multi));
    c.insert("evaluations_by_target".into(), json!(tally.by_target));
    c.insert("samples".into(), json!(samples.items));
    c.insert("exhaustive".into(), json!(true));
    ctx.finish(
        "exploration",
        c,
        vec!["the target family is fixed at compile time (39 types + one two-field struct)".into(), "f64 -> f32 narrowing is outside the statement's wording ('integer') and only counted".into()],
    )
}
