//! C19 — schema validation never panics and accepts exactly the valid schemas. Bounded-exhaustive
//! family of schema documents (schema_gen.rs): every document within k deviations of two valid
//! skeletons; `Schema::parse` under catch_unwind must return, and must accept exactly when the
//! independent validator of the documented rules says Valid (documents using something the
//! documented rules are silent about are checked for "no panic" only).

use std::{
    collections::BTreeMap,
    sync::{
        atomic::{AtomicU64, Ordering},
        Mutex,
    },
};

use rayon::prelude::*;
use serde_json::json;
use trustfall_core::schema::Schema;

use crate::{
    common::{catch, cov, Ctx, Samples},
    schema_gen::{self, SDoc, Verdict},
};

pub enum Parsed {
    Ok(Box<Schema>),
    Err(String),
    Panic(crate::common::PanicRec),
}

pub fn parse(text: &str) -> Parsed {
    match catch(|| Schema::parse(text)) {
        Ok(Ok(s)) => Parsed::Ok(Box::new(s)),
        Ok(Err(e)) => Parsed::Err(format!("{e}")),
        Err(p) => Parsed::Panic(p),
    }
}

pub fn run(ctx: &Ctx) -> ! {
    let k = ctx.tier.pick(2, 3);
    let samples = Mutex::new(Samples::new(6));
    if let Some(path) = &ctx.replay {
        let v: serde_json::Value = serde_json::from_str(&std::fs::read_to_string(path).unwrap_or_else(|e| crate::common::machinery(&format!("{e}")))).unwrap();
        let text = v["schema_text"].as_str().unwrap_or_default();
        match parse(text) {
            Parsed::Ok(_) => println!("observed: accepted"),
            Parsed::Err(e) => println!("observed: rejected: {e}"),
            Parsed::Panic(p) => println!("observed: PANIC {}", p.message),
        }
        println!("expected: {}", v["expected"]);
        let mut c = cov();
        c.insert("evaluations".into(), json!(1));
        c.insert("distinct_nontrivial".into(), json!(1));
        ctx.finish("exploration", c, vec![]);
    }
    let budget = ctx.budget_s();
    let seeds = [schema_gen::skeleton(), schema_gen::skeleton_hierarchy()];
    // layers 0..=min(k,2) materialised; layer 3 streamed from layer 2
    let layers = schema_gen::enumerate(&seeds, k.min(2));
    let counts: Vec<usize> = layers.iter().map(|l| l.len()).collect();
    let total = AtomicU64::new(0);
    let by_verdict: Mutex<BTreeMap<&'static str, (u64, u64, u64)>> = Mutex::new(BTreeMap::new()); // (accepted, rejected, panicked)
    let panics = AtomicU64::new(0);
    let capped = std::sync::atomic::AtomicBool::new(false);
    let error_kinds: Mutex<BTreeMap<String, u64>> = Mutex::new(BTreeMap::new());

    let check = |d: &SDoc| {
        total.fetch_add(1, Ordering::Relaxed);
        let text = d.text();
        let verdict = schema_gen::validate(d);
        let got = parse(&text);
        let vname = match &verdict {
            Verdict::Valid => "valid",
            Verdict::Invalid(_) => "invalid",
            Verdict::Unspecified(_) => "unspecified",
        };
        {
            let mut b = by_verdict.lock().unwrap();
            let e = b.entry(vname).or_insert((0, 0, 0));
            match &got {
                Parsed::Ok(_) => e.0 += 1,
                Parsed::Err(_) => e.1 += 1,
                Parsed::Panic(_) => e.2 += 1,
            }
        }
        let rep = |obs: serde_json::Value| json!({"schema_text": text, "expected": format!("{verdict:?}"), "observed": obs});
        match (&got, &verdict) {
            (Parsed::Panic(p), _) => {
                panics.fetch_add(1, Ordering::Relaxed);
                ctx.fail(&p.key(), &format!("schema construction panicked: {}", p.message.lines().next().unwrap_or("")), rep(p.to_json()));
            }
            (Parsed::Ok(_), Verdict::Invalid(reasons)) => {
                let kind = reasons[0].split_whitespace().filter(|w| w.chars().all(|c| c.is_ascii_lowercase() || c == '-')).take(4).collect::<Vec<_>>().join("-");
                ctx.fail(&format!("accepted-invalid-schema:{kind}"), "a schema violating a documented rule was accepted", rep(json!("accepted")));
            }
            (Parsed::Err(e), Verdict::Valid) => {
                ctx.fail("rejected-valid-schema", "a schema satisfying every documented rule was rejected", rep(json!({"rejected": e})));
            }
            (Parsed::Err(e), _) => {
                let kind: String = e.chars().take_while(|c| *c != ':' && *c != '"').take(60).collect();
                *error_kinds.lock().unwrap().entry(kind).or_insert(0) += 1;
            }
            (Parsed::Ok(_), Verdict::Valid) => {
                samples.lock().unwrap().offer(|| json!({"schema_text": text, "verdict": "valid, accepted"}));
            }
            _ => {}
        }
    };

    for layer in &layers {
        layer.par_iter().for_each(|d| {
            if ctx.elapsed() > budget {
                capped.store(true, Ordering::Relaxed);
                return;
            }
            check(d)
        });
    }
    let mut streamed = 0u64;
    if k > 2 && !capped.load(Ordering::Relaxed) {
        let seen: Vec<Mutex<std::collections::HashSet<u64>>> = (0..256).map(|_| Mutex::new(Default::default())).collect();
        for d in layers.iter().flatten() {
            let h = crate::common::fnv(d.text().as_bytes());
            seen[(h % 256) as usize].lock().unwrap().insert(h);
        }
        let n = AtomicU64::new(0);
        layers[2].par_iter().for_each(|d| {
            if ctx.elapsed() > budget {
                capped.store(true, Ordering::Relaxed);
                return;
            }
            for x in schema_gen::deviations(d) {
                let h = crate::common::fnv(x.text().as_bytes());
                if seen[(h % 256) as usize].lock().unwrap().insert(h) {
                    n.fetch_add(1, Ordering::Relaxed);
                    check(&x);
                }
            }
        });
        streamed = n.into_inner();
    }

    let bv = by_verdict.lock().unwrap().clone();
    let mut c = cov();
    c.insert("evaluations".into(), json!(total.load(Ordering::Relaxed)));
    let decided = bv.get("valid").map(|x| x.0 + x.1).unwrap_or(0) + bv.get("invalid").map(|x| x.0 + x.1).unwrap_or(0);
    c.insert("distinct_nontrivial".into(), json!(decided));
    c.insert("rule".into(), json!("every schema document within k deviations (add / remove / flip type definitions, toggle implements entries, add / remove fields over a menu of property and edge types incl. custom / undefined / root / nested-list / depth-31 types, parameter sets and default literals of every kind, change field and parameter types, schema blocks, scalar and directive definitions) of two valid skeletons; Schema::parse under catch_unwind; accepted iff the independent validator finds every documented rule satisfied; documents touching something the documented rules are silent about (duplicate definitions, root properties, nested-list edges, non-built-in parameter types, missing / extra schema blocks) are checked for no-panic only. non-trivial = distinct documents whose accept / reject verdict was decided by the validator"));
    c.insert("documents_per_deviation_layer".into(), json!(counts));
    c.insert("documents_streamed_in_last_layer".into(), json!(streamed));
    c.insert("deviation_bound".into(), json!(k));
    c.insert("by_validator_verdict_accepted_rejected_panicked".into(), json!(bv.iter().map(|(k, v)| (k.to_string(), json!([v.0, v.1, v.2]))).collect::<BTreeMap<_, _>>()));
    c.insert("engine_error_kinds".into(), json!(error_kinds.lock().unwrap().clone()));
    c.insert("samples".into(), json!(samples.lock().unwrap().items));
    c.insert("exhaustive".into(), json!(!capped.load(Ordering::Relaxed)));
    ctx.finish(
        "exploration",
        c,
        vec![
            "the validator implements the rules listed in the property statement (schema_gen.rs::validate); everything else is 'unspecified'".into(),
            "enum / union / input / extend definitions are outside 'supported constructs' and are not generated".into(),
        ],
    )
}
