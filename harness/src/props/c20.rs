//! C20 — schema introspection reports exactly the schema's contents. For every valid schema of the
//! C19 document family (and the repository's own test schemas and S-verif), a fixed set of
//! introspection queries runs through the real SchemaAdapter; the answers are compared, as sets,
//! with the harness's independent parse of the schema text (SchemaModel). The introspection adapter
//! itself must pass the repository's check_adapter_invariants.

use std::{
    collections::{BTreeMap, BTreeSet},
    sync::{
        atomic::{AtomicU64, Ordering},
        Arc, Mutex,
    },
};

use rayon::prelude::*;
use serde_json::json;
use trustfall_core::{
    frontend,
    interpreter::{execution::interpret_ir, helpers::check_adapter_invariants},
    ir::FieldValue as FV,
    schema::{Schema, SchemaAdapter},
};

use crate::{
    common::{catch, cov, Ctx, Samples},
    engine::Row,
    schema_gen::{self, Verdict},
    schema_model::SchemaModel,
    values::canon,
};

fn json_of(v: &FV) -> String {
    match v {
        FV::Null => "null".into(),
        FV::Int64(x) => x.to_string(),
        FV::Uint64(x) => x.to_string(),
        FV::Float64(x) => serde_json::to_string(x).unwrap(),
        FV::String(s) => serde_json::to_string(s.as_ref()).unwrap(),
        FV::Boolean(b) => b.to_string(),
        FV::List(xs) => format!("[{}]", xs.iter().map(json_of).collect::<Vec<_>>().join(",")),
        _ => "?".into(),
    }
}

fn s(row: &Row, k: &str) -> String {
    match row.get(k) {
        Some(FV::String(x)) => x.to_string(),
        Some(FV::Null) => "<null>".into(),
        Some(other) => canon(other),
        None => "<missing>".into(),
    }
}
fn strs(row: &Row, k: &str) -> Vec<String> {
    match row.get(k) {
        Some(FV::List(xs)) => xs.iter().map(|x| if let FV::String(s) = x { s.to_string() } else { canon(x) }).collect(),
        _ => vec!["<not a list>".into()],
    }
}

type Facts = BTreeSet<String>;

/// What the schema text says (independent parse).
pub fn expected_facts(sm: &SchemaModel) -> BTreeMap<&'static str, Facts> {
    let mut m: BTreeMap<&'static str, Facts> = BTreeMap::new();
    for k in ["types", "implements", "implementer_strict", "implementer_with_self", "properties", "edges", "parameters", "entrypoints"] {
        m.insert(k, Facts::new());
    }
    let is_vertex = |n: &str| sm.types.contains_key(n);
    for t in sm.types.values().filter(|t| t.name != sm.root) {
        m.get_mut("types").unwrap().insert(format!("{} interface={}", t.name, t.is_interface));
        for i in &t.implements {
            m.get_mut("implements").unwrap().insert(format!("{} implements {}", t.name, i));
            m.get_mut("implementer_strict").unwrap().insert(format!("{} implementer {}", i, t.name));
            m.get_mut("implementer_with_self").unwrap().insert(format!("{} implementer {}", i, t.name));
        }
        m.get_mut("implementer_with_self").unwrap().insert(format!("{} implementer {}", t.name, t.name));
        for f in &t.fields {
            if is_vertex(f.ty.base()) {
                m.get_mut("edges").unwrap().insert(format!("{}.{} -> {} to_many={} at_least_one={}", t.name, f.name, f.ty.base(), f.ty.is_list(), !f.ty.nullable()));
                for p in &f.params {
                    let default = match &p.default {
                        Some(v) => json_of(v),
                        None if p.ty.nullable() => "null".into(),
                        None => "<null>".into(),
                    };
                    m.get_mut("parameters").unwrap().insert(format!("{}.{}({}: {} = {})", t.name, f.name, p.name, p.ty.text(), default));
                }
            } else {
                m.get_mut("properties").unwrap().insert(format!("{}.{}: {}", t.name, f.name, f.ty.text()));
            }
        }
    }
    for f in &sm.root_type().fields {
        if is_vertex(f.ty.base()) {
            m.get_mut("entrypoints").unwrap().insert(format!("{} -> {} to_many={} at_least_one={}", f.name, f.ty.base(), f.ty.is_list(), !f.ty.nullable()));
        }
    }
    m
}

const QUERIES: &[(&str, &str)] = &[
    ("types", "{ VertexType { name @output is_interface @output } }"),
    ("implements", "{ VertexType { name @output implements @fold { impl: name @output } } }"),
    ("implementer", "{ VertexType { name @output is_interface @output implementer @fold { impl: name @output } } }"),
    ("properties", "{ VertexType { name @output property { pname: name @output ptype: type @output } } }"),
    ("edges", "{ VertexType { name @output edge { ename: name @output to_many @output at_least_one @output target { tname: name @output } } } }"),
    ("parameters", "{ VertexType { name @output edge { ename: name @output parameter { pname: name @output ptype: type @output default @output } } } }"),
    ("entrypoints", "{ Entrypoint { ename: name @output to_many @output at_least_one @output target { tname: name @output } } }"),
    ("entrypoints_via_schema", "{ Schema { entrypoint { ename: name @output to_many @output at_least_one @output target { tname: name @output } } } }"),
    ("types_via_schema", "{ Schema { vertex_type { name @output is_interface @output } } }"),
    ("entrypoint_parameters", "{ Entrypoint { ename: name @output parameter @fold { pname: name @output ptype: type @output default @output } } }"),
];

pub struct Meta {
    pub schema: Schema,
    pub compiled: Vec<(&'static str, Arc<trustfall_core::ir::IndexedQuery>)>,
    pub by_name: Arc<trustfall_core::ir::IndexedQuery>,
    pub by_names: Arc<trustfall_core::ir::IndexedQuery>,
}

pub fn meta() -> Meta {
    let schema = Schema::parse(SchemaAdapter::schema_text()).unwrap_or_else(|e| crate::common::machinery(&format!("introspection schema rejected: {e}")));
    let compile = |q: &str| frontend::parse(&schema, q).unwrap_or_else(|e| crate::common::machinery(&format!("introspection query rejected: {q}: {e}")));
    let compiled = QUERIES.iter().map(|(k, q)| (*k, compile(q))).collect();
    let by_name = compile("{ VertexType { name @output @filter(op: \"=\", value: [\"$n\"]) is_interface @output } }");
    let by_names = compile("{ Schema { vertex_type { name @output @filter(op: \"one_of\", value: [\"$ns\"]) is_interface @output } } }");
    Meta { schema, compiled, by_name, by_names }
}

fn run_rows(schema: &'static Schema, q: &Arc<trustfall_core::ir::IndexedQuery>, args: BTreeMap<Arc<str>, FV>) -> Result<Vec<Row>, crate::common::PanicRec> {
    catch(|| {
        let adapter = Arc::new(SchemaAdapter::new(schema));
        interpret_ir(adapter, q.clone(), Arc::new(args)).expect("no arguments expected").collect()
    })
}

/// Returns the list of (fact kind, description of the difference).
pub fn check_schema(meta: &Meta, text: &str, schema: Schema, queries_run: &AtomicU64) -> Vec<(String, String)> {
    let mut errs = vec![];
    let sm = SchemaModel::parse(text);
    let want = expected_facts(&sm);
    let schema: &'static Schema = Box::leak(Box::new(schema));
    let mut got: BTreeMap<&str, Facts> = BTreeMap::new();
    for (kind, q) in &meta.compiled {
        queries_run.fetch_add(1, Ordering::Relaxed);
        let rows = match run_rows(schema, q, BTreeMap::new()) {
            Ok(r) => r,
            Err(p) => {
                errs.push((format!("introspection-{}", p.key()), format!("query {kind} panicked: {}", p.message)));
                continue;
            }
        };
        let facts: Facts = rows
            .iter()
            .flat_map(|r| -> Vec<String> {
                match *kind {
                    "types" | "types_via_schema" => vec![format!("{} interface={}", s(r, "name"), s(r, "is_interface"))],
                    "implements" => strs(r, "impl").into_iter().map(|i| format!("{} implements {}", s(r, "name"), i)).collect(),
                    "implementer" => strs(r, "impl").into_iter().map(|i| format!("{} implementer {}", s(r, "name"), i)).collect(),
                    "properties" => vec![format!("{}.{}: {}", s(r, "name"), s(r, "pname"), s(r, "ptype"))],
                    "edges" => vec![format!("{}.{} -> {} to_many={} at_least_one={}", s(r, "name"), s(r, "ename"), s(r, "tname"), s(r, "to_many"), s(r, "at_least_one"))],
                    "parameters" => vec![format!("{}.{}({}: {} = {})", s(r, "name"), s(r, "ename"), s(r, "pname"), s(r, "ptype"), s(r, "default"))],
                    "entrypoints" | "entrypoints_via_schema" => vec![format!("{} -> {} to_many={} at_least_one={}", s(r, "ename"), s(r, "tname"), s(r, "to_many"), s(r, "at_least_one"))],
                    _ => vec![],
                }
            })
            .collect();
        got.insert(kind, facts);
    }
    let mut cmp = |kind: &str, want_key: &str| {
        if let (Some(g), Some(w)) = (got.get(kind), want.get(want_key)) {
            if g != w {
                let missing: Vec<_> = w.difference(g).cloned().collect();
                let extra: Vec<_> = g.difference(w).cloned().collect();
                errs.push((format!("introspection-differs:{kind}"), format!("missing {missing:?}; unexpected {extra:?}")));
            }
        }
    };
    cmp("types", "types");
    cmp("types_via_schema", "types");
    cmp("implements", "implements");
    cmp("properties", "properties");
    cmp("edges", "edges");
    cmp("parameters", "parameters");
    cmp("entrypoints", "entrypoints");
    cmp("entrypoints_via_schema", "entrypoints");
    // implementer: the strict inverse of `implements`; the type itself is tolerated for interfaces
    // ("subtypes of this vertex type"), while for a non-interface the edge is documented as
    // "guaranteed to be empty".
    if let Some(g) = got.get("implementer") {
        let strict = &want["implementer_strict"];
        let with_self = &want["implementer_with_self"];
        for fact in g {
            if !with_self.contains(fact) {
                errs.push(("introspection-differs:implementer".into(), format!("unexpected {fact}")));
            }
        }
        for fact in strict {
            if !g.contains(fact) {
                errs.push(("introspection-differs:implementer".into(), format!("missing {fact}")));
            }
        }
        for t in sm.types.values().filter(|t| !t.is_interface && t.name != sm.root) {
            if g.iter().any(|f| f.starts_with(&format!("{} implementer ", t.name))) {
                errs.push(("implementer-of-non-interface-not-empty".into(), format!("object type {} reports implementers although the edge is documented as 'guaranteed to be empty' for non-interfaces", t.name)));
            }
        }
    }
    // lookups by name (exercise the adapter's own use of hints)
    let mut names: Vec<String> = sm.types.keys().filter(|n| **n != sm.root).cloned().collect();
    names.push("NoSuchType".into());
    names.push(sm.root.clone());
    for n in &names {
        queries_run.fetch_add(1, Ordering::Relaxed);
        let args: BTreeMap<Arc<str>, FV> = [(Arc::from("n"), FV::String(Arc::from(n.as_str())))].into_iter().collect();
        match run_rows(schema, &meta.by_name, args) {
            Ok(rows) => {
                let expect = if sm.types.contains_key(n) && *n != sm.root { 1 } else { 0 };
                if rows.len() != expect || rows.iter().any(|r| s(r, "name") != *n) {
                    errs.push(("introspection-differs:lookup-by-name".into(), format!("lookup of {n} returned {} rows, expected {expect}", rows.len())));
                }
            }
            Err(p) => errs.push((format!("introspection-{}", p.key()), format!("lookup by name panicked: {}", p.message))),
        }
    }
    {
        queries_run.fetch_add(1, Ordering::Relaxed);
        let list = FV::List(names.iter().map(|n| FV::String(Arc::from(n.as_str()))).collect::<Vec<_>>().into());
        let args: BTreeMap<Arc<str>, FV> = [(Arc::from("ns"), list)].into_iter().collect();
        match run_rows(schema, &meta.by_names, args) {
            Ok(rows) => {
                let g: Facts = rows.iter().map(|r| format!("{} interface={}", s(r, "name"), s(r, "is_interface"))).collect();
                if g != want["types"] {
                    errs.push(("introspection-differs:lookup-by-names".into(), format!("got {g:?}")));
                }
            }
            Err(p) => errs.push((format!("introspection-{}", p.key()), format!("lookup by names panicked: {}", p.message))),
        }
    }
    // the introspection adapter honours the adapter contract
    if let Err(p) = catch(|| check_adapter_invariants(&meta.schema, SchemaAdapter::new(schema))) {
        errs.push(("introspection-adapter-fails-invariant-checker".into(), p.message.lines().next().unwrap_or("").to_string()));
    }
    errs
}

pub fn run(ctx: &Ctx) -> ! {
    let meta = meta();
    let samples = Mutex::new(Samples::new(4));
    let queries_run = AtomicU64::new(0);
    let schemas_checked = AtomicU64::new(0);
    let facts_total = AtomicU64::new(0);
    let budget = ctx.budget_s();
    let capped = std::sync::atomic::AtomicBool::new(false);

    let check_text = |origin: &str, text: &str| {
        let schema = match crate::props::c19::parse(text) {
            crate::props::c19::Parsed::Ok(s) => *s,
            _ => return,
        };
        schemas_checked.fetch_add(1, Ordering::Relaxed);
        let sm = SchemaModel::parse(text);
        facts_total.fetch_add(expected_facts(&sm).values().map(|f| f.len() as u64).sum::<u64>(), Ordering::Relaxed);
        for (key, what) in check_schema(&meta, text, schema, &queries_run) {
            ctx.fail(&key, &what, json!({"schema_text": text, "origin": origin, "observed": what, "expected": "exactly the contents of the schema text"}));
        }
        samples.lock().unwrap().offer(|| json!({"origin": origin, "schema_text": text.chars().take(600).collect::<String>(), "facts": expected_facts(&SchemaModel::parse(text)).iter().map(|(k, v)| (k.to_string(), v.len())).collect::<BTreeMap<_, _>>()}));
    };

    if let Some(path) = &ctx.replay {
        let v: serde_json::Value = serde_json::from_str(&std::fs::read_to_string(path).unwrap_or_else(|e| crate::common::machinery(&format!("{e}")))).unwrap();
        check_text("replay", v["schema_text"].as_str().unwrap_or_default());
        let mut c = cov();
        c.insert("evaluations".into(), json!(queries_run.load(Ordering::Relaxed)));
        c.insert("distinct_nontrivial".into(), json!(1));
        ctx.finish("exploration", c, vec![]);
    }

    // repository schemas + S-verif
    for name in ["numbers", "filesystem", "nullables", "recurses", "parameterized_edges"] {
        let text = std::fs::read_to_string(format!("/repo/trustfall_core/test_data/schemas/{name}.graphql")).unwrap_or_else(|e| crate::common::machinery(&format!("{e}")));
        check_text(name, &text);
    }
    check_text("S-verif", crate::dataset::SVERIF_TEXT);
    check_text("introspection schema", SchemaAdapter::schema_text());

    // every accepted document of the C19 family within k deviations
    let k = ctx.tier.pick(2, 2);
    let layers = schema_gen::enumerate(&[schema_gen::skeleton(), schema_gen::skeleton_hierarchy()], k);
    let docs: Vec<&schema_gen::SDoc> = layers.iter().flatten().filter(|d| !matches!(schema_gen::validate(d), Verdict::Invalid(_))).collect();
    let step = ctx.tier.pick(1usize, 1usize);
    docs.par_iter().enumerate().for_each(|(i, d)| {
        if i % step != 0 {
            return;
        }
        if ctx.elapsed() > budget {
            capped.store(true, Ordering::Relaxed);
            return;
        }
        check_text("C19 family", &d.text());
    });

    let mut c = cov();
    c.insert("evaluations".into(), json!(queries_run.load(Ordering::Relaxed)));
    c.insert("distinct_nontrivial".into(), json!(schemas_checked.load(Ordering::Relaxed)));
    c.insert("rule".into(), json!("for every schema accepted by Schema::parse among: the repository's five test schemas, S-verif, the introspection schema itself, and every document of the C19 family within 2 deviations that violates no documented rule: 10 introspection queries (vertex types + interface flag, implements, implementer, properties + types, edges + target + to_many + at_least_one, parameters + types + JSON defaults, entrypoints, the same through the Schema vertex) plus lookups by name (=, one_of) run through the real SchemaAdapter and are compared as sets with an independent parse of the schema text; check_adapter_invariants(introspection schema, SchemaAdapter) must pass. evaluations = introspection queries executed; non-trivial = schemas checked"));
    c.insert("schemas_checked".into(), json!(schemas_checked.load(Ordering::Relaxed)));
    c.insert("facts_compared".into(), json!(facts_total.load(Ordering::Relaxed)));
    c.insert("family_documents_per_layer".into(), json!(layers.iter().map(|l| l.len()).collect::<Vec<_>>()));
    c.insert("samples".into(), json!(samples.lock().unwrap().items));
    c.insert("exhaustive".into(), json!(!capped.load(Ordering::Relaxed)));
    ctx.finish("exploration", c, vec!["expected contents come from the harness's own parse of the schema text (schema_model.rs), not from Schema".into(), "implementer: the strict inverse of implements is required; the type itself is tolerated for interfaces only".into()])
}
