//! C21 — the engine only calls adapters with what the adapter contract promises. A contract-checking
//! probe validates every resolver call (and every context flowing into it) against the schema
//! text and the dataset's real vertex types.

use std::{
    cell::RefCell,
    collections::BTreeSet,
    rc::Rc,
    sync::{
        atomic::{AtomicU64, Ordering},
        Arc, Mutex,
    },
};

use serde_json::json;
use trustfall_core::{
    interpreter::{ResolveEdgeInfo, ResolveInfo},
    ir::EdgeParameters,
};

use crate::{
    common::{cov, Ctx, Samples},
    corpus::{self, CorpusCfg, Universe},
    dataset::{Dataset, World},
    engine::{self, Exec},
    graph_adapter::{params_map, GraphAdapter, V},
    qast, reference,
    schema_model::FieldModel,
    wrappers::{CallKind, Probe, Probed},
};

pub struct ContractProbe {
    pub world: Arc<World>,
    pub ds: Arc<Dataset>,
    pub calls: RefCell<u64>,
    pub inputs: RefCell<u64>,
    pub shapes: RefCell<BTreeSet<String>>,
    pub bad: RefCell<Vec<(String, String)>>, // (key, description)
    /// (edge name, canonical parameter map) of every starting-vertex / neighbour call
    pub param_maps: RefCell<BTreeSet<(String, String)>>,
}

impl ContractProbe {
    pub fn new(world: Arc<World>, ds: Arc<Dataset>) -> Self {
        ContractProbe { world, ds, calls: Default::default(), inputs: Default::default(), shapes: Default::default(), bad: Default::default(), param_maps: Default::default() }
    }
    fn fail(&self, key: &str, what: String) {
        self.bad.borrow_mut().push((key.to_string(), what));
    }
    fn check_params(&self, what: &str, field: &FieldModel, params: &EdgeParameters) {
        let got = params_map(params);
        let declared: BTreeSet<&str> = field.params.iter().map(|p| p.name.as_str()).collect();
        let have: BTreeSet<&str> = got.keys().map(|k| k.as_str()).collect();
        if declared != have {
            self.fail("edge-parameter-names", format!("{what}: parameters {have:?} but the schema declares {declared:?}"));
        }
        for p in &field.params {
            if let Some(v) = got.get(&p.name) {
                if !p.ty.fits(v) {
                    self.fail("edge-parameter-type", format!("{what}: parameter {} = {v:?} does not fit declared type {}", p.name, p.ty.text()));
                }
            }
        }
    }
}

impl Probe<V> for ContractProbe {
    fn on_start(&self, _c: usize, edge: &str, params: &EdgeParameters, _i: &ResolveInfo) {
        self.param_maps.borrow_mut().insert((edge.to_string(), crate::reference::params_key(&crate::graph_adapter::params_map(params))));
        *self.calls.borrow_mut() += 1;
        self.shapes.borrow_mut().insert(format!("start:{edge}"));
        match self.world.schema.root_type().field(edge) {
            None => self.fail("unknown-entrypoint", format!("resolve_starting_vertices({edge}) is not a field of the root type")),
            Some(f) => self.check_params(&format!("entrypoint {edge}"), f, params),
        }
    }
    fn on_property(&self, _c: usize, ty: &str, prop: &str, _i: &ResolveInfo) {
        *self.calls.borrow_mut() += 1;
        self.shapes.borrow_mut().insert(format!("prop:{ty}.{prop}"));
        let sm = &self.world.schema;
        if !sm.is_vertex_type(ty) {
            self.fail("unknown-type", format!("resolve_property on undefined type {ty}"));
        } else if prop != "__typename" {
            match sm.field(ty, prop) {
                None => self.fail("unknown-property", format!("property {prop} is not defined on type {ty}")),
                Some(f) if sm.is_edge(f) => self.fail("edge-as-property", format!("{ty}.{prop} is an edge but was resolved as a property")),
                _ => {}
            }
        }
    }
    fn on_neighbors(&self, _c: usize, ty: &str, edge: &str, params: &EdgeParameters, _i: &ResolveEdgeInfo) {
        self.param_maps.borrow_mut().insert((edge.to_string(), crate::reference::params_key(&crate::graph_adapter::params_map(params))));
        *self.calls.borrow_mut() += 1;
        self.shapes.borrow_mut().insert(format!("edge:{ty}.{edge}"));
        let sm = &self.world.schema;
        if !sm.is_vertex_type(ty) {
            self.fail("unknown-type", format!("resolve_neighbors on undefined type {ty}"));
            return;
        }
        match sm.field(ty, edge) {
            None => self.fail("unknown-edge", format!("edge {edge} is not defined on type {ty}")),
            Some(f) if !sm.is_edge(f) => self.fail("property-as-edge", format!("{ty}.{edge} is a property but was resolved as an edge")),
            Some(f) => self.check_params(&format!("edge {ty}.{edge}"), f, params),
        }
    }
    fn on_coercion(&self, _c: usize, ty: &str, to: &str, _i: &ResolveInfo) {
        *self.calls.borrow_mut() += 1;
        self.shapes.borrow_mut().insert(format!("coerce:{ty}->{to}"));
        let sm = &self.world.schema;
        if !sm.is_vertex_type(ty) || !sm.is_vertex_type(to) {
            self.fail("unknown-type", format!("resolve_coercion({ty} -> {to}) names an undefined type"));
        } else if !sm.instance_of(to, ty) {
            self.fail("coercion-to-non-subtype", format!("resolve_coercion({ty} -> {to}): {to} is not a subtype of {ty}"));
        }
    }
    fn on_input(&self, _c: usize, kind: CallKind, ty: &str, field: &str, vertex: Option<&V>) {
        *self.inputs.borrow_mut() += 1;
        if let Some(v) = vertex {
            let real = &self.ds.vertices[v.0 as usize].ty;
            if !self.world.schema.instance_of(real, ty) {
                self.fail("vertex-not-instance-of-named-type", format!("{kind:?} call on {ty}.{field} received a vertex of type {real}"));
            }
        }
    }
}

pub fn run(ctx: &Ctx) -> ! {
    let uni = Universe::sverif();
    let mut cfg = CorpusCfg::new(ctx.tier.pick(2, 3));
    cfg.gen.naming_devs = false;
    // wrong-typed / unknown edge parameters are generated too: the frontend must reject them, and if it
    // ever accepted one the contract probe would see the ill-typed value reach the adapter
    cfg.gen.invalid_devs = true;
    cfg.ir_var_types_fallback = true;
    cfg.max_arg_maps = 1;
    let keep: BTreeSet<&str> = ["diamond", "fan3", "counts0123", "chains", "chain4", "twocycle"].into_iter().collect();
    let uni = Universe { datasets: uni.datasets.iter().filter(|d| keep.contains(d.name.as_str())).cloned().collect(), ..uni };
    let calls = AtomicU64::new(0);
    let inputs = AtomicU64::new(0);
    let shapes: Mutex<BTreeSet<String>> = Mutex::new(BTreeSet::new());
    let distinct: Mutex<BTreeSet<u64>> = Mutex::new(BTreeSet::new());
    let samples = Mutex::new(Samples::new(4));
    cfg.extra.push(("two-edge structures + one deviation of any kind", {
        let mut x = corpus::structures_any_cfg(&uni);
        x.only_datasets = Some(vec!["diamond", "fan3", "counts0123", "chains"]);
        x
    }));
    cfg.extra.push(("two-edge structures under the A-typed root FirstA + one deviation of any kind", {
        let mut x = corpus::structures_any_rooted_cfg(&uni, "FirstA");
        x.only_datasets = Some(vec!["diamond", "fan3", "counts0123"]);
        x
    }));
    cfg.stream_share = 1.0;
    let stats = corpus::drive(
        ctx,
        &uni,
        &cfg,
        &|_| {},
        &|case| {
            let probe = Rc::new(ContractProbe::new(uni.world.clone(), case.ds.clone()));
            let adapter = Arc::new(Probed::new(GraphAdapter::new(uni.world.clone(), case.ds.clone()), probe.clone()));
            let out = engine::execute(adapter, case.cq.iq.clone(), case.args);
            if let Exec::Panic { .. } = out {
                return;
            }
            calls.fetch_add(*probe.calls.borrow(), Ordering::Relaxed);
            inputs.fetch_add(*probe.inputs.borrow(), Ordering::Relaxed);
            {
                let mut s = shapes.lock().unwrap();
                let mut d = distinct.lock().unwrap();
                for sh in probe.shapes.borrow().iter() {
                    d.insert(crate::common::fnv(format!("{}|{sh}", case.cq.text).as_bytes()));
                    s.insert(sh.clone());
                }
            }
            for (key, what) in probe.bad.borrow().iter() {
                let mut rep = case.replay();
                rep["observed"] = json!(what);
                ctx.fail(key, what, rep);
            }
            // "(explicit, default, or null)": the map each edge receives is the one the query text and the
            // schema imply -- the explicit value where one is written (also an explicit null), else the declared
            // default, else null
            if let Ok(allowed) = crate::reference::allowed_edge_params(&uni.world.schema, &case.cq.q) {
                for pm in probe.param_maps.borrow().iter() {
                    if !allowed.contains(pm) {
                        let mut rep = case.replay();
                        rep["observed"] = json!({"edge": pm.0, "parameters": pm.1});
                        rep["expected"] = json!({"one_of": allowed.iter().filter(|a| a.0 == pm.0).map(|a| a.1.clone()).collect::<Vec<_>>()});
                        ctx.fail("edge-parameter-values", &format!("edge {} received parameters {} which are not the explicit / default / null values the query implies", pm.0, pm.1), rep);
                    }
                }
            }
            let f = qast::features(&case.cq.q);
            if f.recurse > 0 && f.coercion > 0 {
                samples.lock().unwrap().offer(|| json!({"query_text": case.cq.text, "dataset": case.ds.name, "call_shapes": probe.shapes.borrow().iter().collect::<Vec<_>>()}));
            }
            // parameter maps must also be ones the query text implies (explicit / default / null)
            let _ = reference::allowed_edge_params;
        },
        &|_, _| {},
    );
    let mut c = cov();
    c.insert("evaluations".into(), json!(calls.load(Ordering::Relaxed) + inputs.load(Ordering::Relaxed)));
    c.insert("distinct_nontrivial".into(), json!(distinct.lock().unwrap().len()));
    c.insert("rule".into(), json!("every resolver call (type / property / edge / coercion target / parameter names and value types) and every context entering a call (active vertex is an instance of the named type) of every (query, dataset) case of the enumerated space; distinct = distinct (query, call shape) pairs"));
    c.insert("resolver_calls_checked".into(), json!(calls.load(Ordering::Relaxed)));
    c.insert("contexts_checked".into(), json!(inputs.load(Ordering::Relaxed)));
    c.insert("distinct_call_shapes".into(), json!(shapes.lock().unwrap().iter().collect::<Vec<_>>()));
    c.insert("corpus".into(), stats.to_json());
    c.insert("samples".into(), json!(samples.lock().unwrap().items));
    c.insert("exhaustive".into(), json!(!stats.capped));
    ctx.finish("exploration", c, vec!["the schema model used by the checker is parsed from the schema text independently of trustfall's Schema".into()])
}
