//! C22 — fold-count early termination is invisible in results. A corpus focused on the branch
//! space of get_max/min_fold_count_limit and the eligibility test in compute_fold: every
//! fold-count filter operator x argument class x observer (inner @output, count @output, count
//! @tag used in a vertex filter / a sibling fold's count filter / imported into a sibling fold,
//! nested folds) over datasets whose real counts are 0..3. Two oracles:
//!  (1) the reference evaluator, which materialises every fold completely before filtering;
//!  (2) the metamorphic form of the statement: adding an observer (count @output, an @output
//!      inside the fold, a nested fold with an @output) changes neither the other outputs nor the
//!      row multiset.

use std::{
    collections::BTreeSet,
    sync::{
        atomic::{AtomicU64, Ordering},
        Arc, Mutex,
    },
};

use serde_json::json;

use crate::{
    common::{cov, Ctx, Samples},
    corpus::{self, Case, CorpusCfg, Universe},
    engine::{self, Compiled, Exec},
    graph_adapter::GraphAdapter,
    props::c01,
    qast::{self, Dir, EdgeUse, Item, PropUse, Query},
    qgen,
};

/// Observer variants of `q`: (description, query').
pub fn observers(uni: &Universe, q: &Query) -> Vec<(String, Query)> {
    let sm = &uni.world.schema;
    let mut out = vec![];
    let infos = qgen::nodes(sm, q);
    for ni in infos.iter().skip(1) {
        let e = qgen::edge_at(q, &ni.path);
        if !e.fold {
            continue;
        }
        let pn = qgen::path_name(&ni.path);
        if !e.count.as_ref().map(|c| c.iter().any(|d| matches!(d, Dir::Output(_)))).unwrap_or(false) {
            let mut q2 = q.clone();
            qgen::edge_at_mut(&mut q2, &ni.path).count.get_or_insert_with(Vec::new).push(Dir::Output(Some(format!("zzc{pn}"))));
            out.push((format!("count @output on fold {pn}"), q2));
        }
        let prop = if sm.field(&ni.ty, "id").is_some() { "id" } else { "s" };
        {
            let mut q2 = q.clone();
            qgen::node_at_mut(&mut q2, &ni.path).items.insert(0, Item::Prop(PropUse { name: prop.into(), alias: None, dirs: vec![Dir::Output(Some(format!("zzo{pn}")))] }));
            out.push((format!("@output inside fold {pn}"), q2));
        }
        if sm.field(&ni.ty, "next").is_some() && qgen::count_vertices(q) < 5 {
            let mut q2 = q.clone();
            let mut inner = EdgeUse::new("next");
            inner.fold = true;
            inner.node.items.push(Item::Prop(PropUse { name: "id".into(), alias: None, dirs: vec![Dir::Output(Some(format!("zzn{pn}")))] }));
            qgen::node_at_mut(&mut q2, &ni.path).items.push(Item::Edge(inner));
            out.push((format!("nested fold with @output inside fold {pn}"), q2));
        }
    }
    out
}

#[derive(Default)]
pub struct Counters {
    pub meta_pairs: AtomicU64,
    pub meta_rejected: AtomicU64,
    pub early_eligible: AtomicU64,
}

fn project(rows: &[engine::Row], names: &BTreeSet<String>) -> Vec<String> {
    let mut v: Vec<String> = rows.iter().map(|r| engine::canon_row(&r.iter().filter(|(k, _)| names.contains(k.as_ref())).map(|(k, v)| (k.clone(), v.clone())).collect())).collect();
    v.sort();
    v
}

pub fn metamorphic(ctx: &Ctx, uni: &Universe, case: &Case<'_>, c: &Counters) {
    let base = match engine::execute(Arc::new(GraphAdapter::new(uni.world.clone(), case.ds.clone())), case.cq.iq.clone(), case.args) {
        Exec::Rows(r) => r,
        _ => return,
    };
    let names: BTreeSet<String> = case.cq.iq.outputs.keys().map(|k| k.to_string()).collect();
    let want = project(&base, &names);
    for (what, q2) in observers(uni, &case.cq.q) {
        let text = q2.text();
        let iq2 = match engine::compile(&uni.schema, &text) {
            Compiled::Ok(iq) => iq,
            _ => {
                c.meta_rejected.fetch_add(1, Ordering::Relaxed);
                continue;
            }
        };
        c.meta_pairs.fetch_add(1, Ordering::Relaxed);
        let got = engine::execute(Arc::new(GraphAdapter::new(uni.world.clone(), case.ds.clone())), iq2, case.args);
        let ok = matches!(&got, Exec::Rows(r) if project(r, &names) == want);
        if !ok {
            let mut rep = case.replay();
            rep["observer_added"] = json!(what);
            rep["query_text_with_observer"] = json!(text);
            rep["expected"] = json!({"rows_of_original_query": engine::rows_json(&base)});
            rep["observed"] = engine::exec_json(&got);
            let key = match &got {
                Exec::Panic { rec, .. } => rec.key(),
                _ => format!("observer-changes-results:{}", what.split(" fold ").next().unwrap_or("")),
            };
            ctx.fail(&key, "adding an observer of a fold changed the other outputs or the row multiset", rep);
        }
    }
}

pub fn run(ctx: &Ctx) -> ! {
    let uni = Universe::sverif();
    let c1 = c01::Counters::default();
    let cm = Counters::default();
    let samples = Mutex::new(Samples::new(4));
    if let Some(path) = &ctx.replay {
        let v: serde_json::Value = serde_json::from_str(&std::fs::read_to_string(path).unwrap_or_else(|e| crate::common::machinery(&format!("{e}")))).unwrap();
        let (cq, ds, args) = corpus::case_from_replay(&uni, &v).unwrap_or_else(|e| crate::common::machinery(&e));
        let case = Case { cq: &cq, ds: &ds, args: &args };
        c01::check_case(ctx, &uni, &case, &c1, &samples);
        metamorphic(ctx, &uni, &case, &cm);
        let mut c = cov();
        c.insert("evaluations".into(), json!(1));
        c.insert("distinct_nontrivial".into(), json!(1));
        ctx.finish("exploration", c, vec![]);
    }
    let distinct: Mutex<BTreeSet<u64>> = Mutex::new(BTreeSet::new());
    let per_case = |case: &Case<'_>| {
        c01::check_case(ctx, &uni, case, &c1, &samples);
        let f = qast::features(&case.cq.q);
        if f.count_filter > 0 {
            metamorphic(ctx, &uni, case, &cm);
            distinct.lock().unwrap().insert(crate::common::fnv(format!("{}|{}|{}", case.cq.text, engine::args_json(case.args), case.ds.name).as_bytes()));
        }
    };
    let sm = &uni.world.schema;
    let has_fold = |q: &Query| qast::features(q).fold > 0;
    let dev_kinds = vec!["Fco", "Fcf", "Fct", "Po", "Pt"];
    // datasets where fold sizes differ per start vertex
    let mut uni_small = Universe::sverif();
    uni_small.datasets.retain(|d| matches!(d.name.as_str(), "counts0123" | "fan3" | "diamond" | "twocycle" | "empty"));

    // (A) one folded edge (every edge name / parameter variant) + up to k count/observer deviations
    let cfg_e1 = qgen::GenCfg { allow: Some(vec!["E"]), e_contents: vec![0], recurse_depths: vec![2], naming_devs: false, ..Default::default() };
    let one_edge: Vec<Query> = qgen::enumerate(sm, &[qgen::skeleton()], 1, &cfg_e1).into_iter().skip(1).flatten().filter(has_fold).collect();
    let mut cfg_a = CorpusCfg::new(ctx.tier.pick(3, 3));
    cfg_a.seeds = one_edge;
    cfg_a.gen = qgen::GenCfg { allow: Some(dev_kinds.clone()), naming_devs: false, tag_menu_cap: 3, ..Default::default() };
    cfg_a.wide_args = true;
    cfg_a.args_cap_per_var = 7;
    cfg_a.max_arg_maps = ctx.tier.pick(12, 49);
    let sa = corpus::drive(ctx, &uni_small, &cfg_a, &|_| {}, &per_case, &|_, _| {});

    // (B) two edges, at least one folded (sibling folds, nested folds, fold under optional / recurse,
    //     optional / recurse inside fold) + count/observer deviations
    let cfg_e2 = qgen::GenCfg { allow: Some(vec!["E"]), e_names: Some(vec!["next", "one"]), e_contents: vec![0], recurse_depths: vec![2], naming_devs: false, ..Default::default() };
    let two_edges: Vec<Query> = qgen::enumerate(sm, &[qgen::skeleton()], 2, &cfg_e2).into_iter().skip(2).flatten().filter(has_fold).collect();
    let mut cfg_b = CorpusCfg::new(ctx.tier.pick(2, 3));
    cfg_b.seeds = two_edges;
    cfg_b.gen = qgen::GenCfg { allow: Some(dev_kinds.clone()), naming_devs: false, tag_menu_cap: 3, ..Default::default() };
    cfg_b.wide_args = true;
    cfg_b.args_cap_per_var = 7;
    cfg_b.max_arg_maps = ctx.tier.pick(7, 21);
    cfg_b.keep = Some(Arc::new(|q: &Query| {
        let f = qast::features(q);
        f.count_filter + f.count_tag + f.count_output > 0 || f.layerless()
    }));
    cfg_b.stream_share = 1.0;
    let sb = if ctx.elapsed() < ctx.budget_s() { Some(corpus::drive(ctx, &uni_small, &cfg_b, &|_| {}, &per_case, &|_, _| {})) } else { None };

    let mut c = cov();
    let evals = c1.executed.load(Ordering::Relaxed) + cm.meta_pairs.load(Ordering::Relaxed);
    c.insert("evaluations".into(), json!(evals));
    c.insert("distinct_nontrivial".into(), json!(distinct.lock().unwrap().len()));
    c.insert("rule".into(), json!("two enumerated spaces: (A) one folded edge (every edge / parameter variant) + <= k deviations from {count output, count filter (6 operators), count tag + use (vertex filter / sibling fold count), inner output, property tag + use}; (B) two edges with at least one fold (sibling, nested, under / containing optional and recurse) + deviations; count-filter arguments from {-1,0,1,2,3,i64::MIN,u64::MAX} and lists {[],[2],[0,3]}; 5 datasets with fold sizes 0..3. Each case: engine rows vs reference evaluator (full materialisation); each case with a count filter: every observer variant (count @output, inner @output, nested fold with @output) must leave the projection on the original outputs unchanged. evaluations = reference comparisons + metamorphic pairs; non-trivial = distinct (query, arguments, dataset) with at least one fold-count filter"));
    c.insert("reference_comparisons".into(), json!(c1.executed.load(Ordering::Relaxed)));
    c.insert("metamorphic_pairs".into(), json!(cm.meta_pairs.load(Ordering::Relaxed)));
    c.insert("observer_variants_rejected_by_frontend".into(), json!(cm.meta_rejected.load(Ordering::Relaxed)));
    c.insert("cases_skipped_oracle_undefined".into(), json!(c1.undefined.load(Ordering::Relaxed)));
    c.insert("corpus_one_fold".into(), sa.to_json());
    c.insert("corpus_two_edges".into(), sb.as_ref().map(|s| s.to_json()).unwrap_or(json!("skipped: time budget used by the first corpus")));
    c.insert("samples".into(), json!(samples.lock().unwrap().items));
    let capped = sa.capped || sb.as_ref().map(|s| s.capped).unwrap_or(true);
    c.insert("exhaustive".into(), json!(!capped));
    ctx.finish(
        "exploration",
        c,
        vec![
            "the reference evaluator materialises every fold before filtering (DESIGN.md Appendix A)".into(),
            "observer variants are compared on the projection to the original query's outputs".into(),
        ],
    )
}
