//! C23 — query transformations with known effects change results exactly as predicted.
//! For every query of the enumerated space and every *applicable* instance of T1..T8 (DESIGN.md
//! §4 C23) both queries run on the real engine over the curated datasets; the predicted relation
//! between the two row multisets is checked. Applicability conditions are part of the oracle and
//! are written next to each transformation; a transformation outside its condition is not run.

use std::{
    cell::RefCell,
    collections::{BTreeMap, BTreeSet},
    sync::{
        atomic::{AtomicU64, Ordering},
        Arc, Mutex,
    },
};

use serde_json::json;
use trustfall_core::ir::{FieldValue as FV, IndexedQuery};

use crate::{
    common::{cov, Ctx, Samples},
    corpus::{self, Case, CorpusCfg, Universe},
    engine::{self, Args, Compiled, Exec},
    graph_adapter::GraphAdapter,
    qast::{self, ArgRef, Dir, EdgeUse, Item, Node, PropUse, Query},
    qgen,
    schema_model::SchemaModel,
    values,
};

#[derive(Clone, Debug)]
pub enum Relation {
    /// rows(variant) is a sub-multiset of rows(original)
    Subset,
    /// rows(original) is a sub-multiset of rows(variant)
    Superset,
    Equal,
    /// rows(original) = rows(variant) + rows(second variant)
    Partition,
    /// equal after renaming output keys by the map
    EqualRenamed(BTreeMap<String, String>),
}

#[derive(Clone)]
pub struct Variant {
    pub kind: &'static str,
    pub what: String,
    pub relation: Relation,
    pub text: String,
    pub iq: Arc<IndexedQuery>,
    pub second: Option<(String, Arc<IndexedQuery>)>,
    /// extra variables: name -> domain; `list_wrap`: variables of the original whose value is wrapped in a one-element list
    pub extra_vars: Vec<(String, Vec<FV>)>,
    pub list_wrap: Vec<(String, String)>, // (original var, new var)
}

#[derive(Clone, Debug)]
struct Pos {
    path: Vec<usize>,
    ty: String,
    fold_depth: usize,
    under_optional: bool,
    under_recurse: bool,
}

fn positions(sm: &SchemaModel, q: &Query) -> Vec<Pos> {
    fn walk(sm: &SchemaModel, n: &Node, unc: &str, path: &mut Vec<usize>, fd: usize, uo: bool, ur: bool, out: &mut Vec<Pos>) {
        let ty = n.coerce.clone().unwrap_or_else(|| unc.to_string());
        out.push(Pos { path: path.clone(), ty: ty.clone(), fold_depth: fd, under_optional: uo, under_recurse: ur });
        let mut i = 0;
        for it in &n.items {
            if let Item::Edge(e) = it {
                i += 1;
                if let Some(f) = sm.field(&ty, &e.name) {
                    path.push(i - 1);
                    walk(sm, &e.node, f.ty.base(), path, fd + e.fold as usize, uo || e.optional, ur || e.recurse.is_some(), out);
                    path.pop();
                }
            }
        }
    }
    let mut out = vec![];
    if let Some(f) = sm.root_type().field(&q.root) {
        walk(sm, &q.node, f.ty.base(), &mut vec![], 0, false, false, &mut out);
    }
    out
}

const NEG_PAIRS: &[(&str, &str, &str)] = &[
    ("n", "=", "!="),
    ("n", "one_of", "not_one_of"),
    ("l", "contains", "not_contains"),
    ("s", "has_prefix", "not_has_prefix"),
    ("s", "has_suffix", "not_has_suffix"),
    ("s", "has_substring", "not_has_substring"),
    ("s", "regex", "not_regex"),
    ("n", "is_null", "is_not_null"),
    ("s", "=", "!="),
];

fn domain_for(op: &str, prop: &str) -> Vec<FV> {
    use values::{i, list, s, u};
    match (prop, op) {
        (_, "is_null") | (_, "is_not_null") => vec![],
        ("n", "one_of") | ("n", "not_one_of") => vec![list(vec![i(1), i(2)]), list(vec![]), list(vec![FV::Null, u(u64::MAX)])],
        ("n", _) | ("id", _) => vec![i(1), i(2), FV::Null],
        ("l", _) => vec![i(2), FV::Null],
        ("s", "=") | ("s", "!=") => vec![s("a"), FV::Null],
        ("s", _) => vec![s("a"), s(""), s("(")],
        _ => vec![],
    }
}

fn nullable_ok(op: &str, v: &FV) -> bool {
    // ordering / string operators take non-null variables; "=" / "!=" / contains take the property's (nullable) type
    !(matches!(v, FV::Null) && !matches!(op, "=" | "!=" | "contains" | "not_contains"))
}

pub fn variants(uni: &Universe, q: &Query, heavy: bool) -> Vec<Variant> {
    let sm = &uni.world.schema;
    let mut out: Vec<Variant> = vec![];
    let pos = positions(sm, q);
    let compile = |q2: &Query| -> Option<(String, Arc<IndexedQuery>)> {
        let t = q2.text();
        match engine::compile(&uni.schema, &t) {
            Compiled::Ok(iq) => Some((t, iq)),
            _ => None,
        }
    };
    let mut push = |kind: &'static str, what: String, relation: Relation, q2: &Query, second: Option<&Query>, extra_vars: Vec<(String, Vec<FV>)>, list_wrap: Vec<(String, String)>, out: &mut Vec<Variant>| {
        if let Some((text, iq)) = compile(q2) {
            let second = match second {
                Some(s) => match compile(s) {
                    Some(x) => Some(x),
                    None => return,
                },
                None => None,
            };
            out.push(Variant { kind, what, relation, text, iq, second, extra_vars, list_wrap });
        }
    };

    for p in &pos {
        let pn = qgen::path_name(&p.path);
        let node = qgen::node_at(q, &p.path);
        // T1: adding a filter never adds rows. Condition: the filtered vertex is not inside a @fold
        // (inside a fold a filter changes list contents, and with a count filter can add rows).
        if p.fold_depth == 0 && heavy {
            for (prop, op) in [("n", "="), ("n", "<"), ("n", ">="), ("n", "one_of"), ("n", "is_null"), ("s", "has_substring"), ("s", "regex"), ("l", "contains"), ("s", "!=")] {
                if qgen::prop_type(sm, &p.ty, prop).is_none() || qgen::has_dir(node, prop, |d| matches!(d, Dir::Filter { op: o, .. } if o == op)) {
                    continue;
                }
                let var = format!("zz{pn}");
                let arg = if op == "is_null" { None } else { Some(ArgRef::Var(var.clone())) };
                let mut q2 = q.clone();
                qgen::add_prop_dir(qgen::node_at_mut(&mut q2, &p.path), prop, Dir::Filter { op: op.to_string(), arg: arg.clone() });
                let dom: Vec<FV> = domain_for(op, prop).into_iter().filter(|v| nullable_ok(op, v)).collect();
                let extra = if arg.is_some() { vec![(var, dom)] } else { vec![] };
                push("T1-add-filter", format!("{prop} {op} at {pn}"), Relation::Subset, &q2, None, extra, vec![], &mut out);
            }
            // T6: a filter and its negation partition the rows. Condition: not inside a fold and not
            // inside an @optional scope (a missing optional vertex passes both).
            if !p.under_optional {
                for (prop, op, neg) in NEG_PAIRS {
                    if qgen::prop_type(sm, &p.ty, prop).is_none() {
                        continue;
                    }
                    if matches!(*op, "is_null") && !qgen::prop_type(sm, &p.ty, prop).unwrap().nullable() {
                        continue;
                    }
                    let var = format!("zz{pn}");
                    let arg = if *op == "is_null" { None } else { Some(ArgRef::Var(var.clone())) };
                    let mut qa = q.clone();
                    qgen::add_prop_dir(qgen::node_at_mut(&mut qa, &p.path), prop, Dir::Filter { op: op.to_string(), arg: arg.clone() });
                    let mut qb = q.clone();
                    qgen::add_prop_dir(qgen::node_at_mut(&mut qb, &p.path), prop, Dir::Filter { op: neg.to_string(), arg: arg.clone() });
                    let dom: Vec<FV> = domain_for(op, prop).into_iter().filter(|v| nullable_ok(op, v)).collect();
                    let extra = if arg.is_some() { vec![(var, dom)] } else { vec![] };
                    push("T6-negation-partition", format!("{prop} {op} / {neg} at {pn}"), Relation::Partition, &qa, Some(&qb), extra, vec![], &mut out);
                }
            }
        }
        // T5: '=' with $x  ==  one_of with [$x]
        for it in &node.items {
            if let Item::Prop(pu) = it {
                for (di, d) in pu.dirs.iter().enumerate() {
                    if let Dir::Filter { op, arg: Some(ArgRef::Var(v)) } = d {
                        if op == "=" && pu.name != "__typename" {
                            // the variable must have no other use
                            let uses = q.text().matches(&format!("${v}\"")).count();
                            if uses != 1 {
                                continue;
                            }
                            let nv = format!("{v}_l");
                            let mut q2 = q.clone();
                            for it2 in qgen::node_at_mut(&mut q2, &p.path).items.iter_mut() {
                                if let Item::Prop(pu2) = it2 {
                                    if pu2.name == pu.name && pu2.alias == pu.alias {
                                        pu2.dirs[di] = Dir::Filter { op: "one_of".into(), arg: Some(ArgRef::Var(nv.clone())) };
                                    }
                                }
                            }
                            push("T5-eq-vs-one_of", format!("{} at {pn}", pu.name), Relation::Equal, &q2, None, vec![], vec![(v.clone(), nv)], &mut out);
                        }
                    }
                }
            }
        }
        // T8: swapping two adjacent sibling selections changes no row contents. Condition: not inside
        // a fold (inside a fold the element order of the aligned lists follows sibling order).
        if p.fold_depth == 0 {
            for i in 0..node.items.len().saturating_sub(1) {
                let mut q2 = q.clone();
                qgen::node_at_mut(&mut q2, &p.path).items.swap(i, i + 1);
                if q2 != *q {
                    push("T8-sibling-reorder", format!("items {i},{} at {pn}", i + 1), Relation::Equal, &q2, None, vec![], vec![], &mut out);
                }
            }
        }
    }
    // transformations on edges
    for p in pos.iter().skip(1) {
        let pn = qgen::path_name(&p.path);
        let e = qgen::edge_at(q, &p.path);
        let parent = &pos.iter().find(|x| x.path == p.path[..p.path.len() - 1]).unwrap();
        // the fold depth of the *edge* is its parent's fold depth
        // T2: raising a recursion depth never removes rows. Condition: the edge is not inside a fold.
        if let Some(d) = e.recurse {
            if parent.fold_depth == 0 {
                let mut q2 = q.clone();
                qgen::edge_at_mut(&mut q2, &p.path).recurse = Some(d + 1);
                push("T2-raise-depth", format!("{} depth {d}->{} at {pn}", e.name, d + 1), Relation::Superset, &q2, None, vec![], vec![], &mut out);
            }
        }
        // T3: making an edge @optional keeps all previous rows. Condition: plain edge, not inside a fold.
        if !e.optional && !e.fold && e.recurse.is_none() && parent.fold_depth == 0 {
            let mut q2 = q.clone();
            qgen::edge_at_mut(&mut q2, &p.path).optional = true;
            push("T3-make-optional", format!("{} at {pn}", e.name), Relation::Superset, &q2, None, vec![], vec![], &mut out);
        }
        // T4: nb(min: m[, tag: t]) without @optional / @recurse  ==  next + n >= m [+ s = t]
        if e.name == "nb" && !e.optional && e.recurse.is_none() && e.count.is_none() {
            let params = qast::params_to_map(&e.params);
            let min = params.get("min").cloned().unwrap_or(values::i(0)); // declared default
            let tag = params.get("tag").cloned().unwrap_or(FV::Null);
            let mut q2 = q.clone();
            {
                let e2 = qgen::edge_at_mut(&mut q2, &p.path);
                e2.name = "next".into();
                e2.params.clear();
                let vmin = format!("zzmin{pn}");
                qgen::add_prop_dir(&mut e2.node, "n", Dir::Filter { op: ">=".into(), arg: Some(ArgRef::Var(vmin)) });
                if !matches!(tag, FV::Null) {
                    let vtag = format!("zztag{pn}");
                    qgen::add_prop_dir(&mut e2.node, "s", Dir::Filter { op: "=".into(), arg: Some(ArgRef::Var(vtag)) });
                }
            }
            let mut extra = vec![(format!("zzmin{pn}"), vec![min])];
            if !matches!(tag, FV::Null) {
                extra.push((format!("zztag{pn}"), vec![tag]));
            }
            push("T4-parameter-vs-filter", format!("nb at {pn}"), Relation::Equal, &q2, None, extra, vec![], &mut out);
        }
    }
    // T7: bijective renaming of explicit output names and tag names
    {
        fn ren_dirs(ds: &mut [Dir], map: &mut BTreeMap<String, String>) {
            for d in ds.iter_mut() {
                match d {
                    Dir::Output(Some(n)) => {
                        let nn = format!("R_{n}");
                        map.insert(n.clone(), nn.clone());
                        *n = nn;
                    }
                    Dir::Tag(Some(n)) => *n = format!("R_{n}"),
                    Dir::Filter { arg: Some(ArgRef::Tag(t)), .. } => *t = format!("R_{t}"),
                    _ => {}
                }
            }
        }
        fn ren(n: &mut Node, map: &mut BTreeMap<String, String>) {
            for it in n.items.iter_mut() {
                match it {
                    Item::Prop(p) => ren_dirs(&mut p.dirs, map),
                    Item::Edge(e) => {
                        if let Some(c) = e.count.as_mut() {
                            ren_dirs(c, map);
                        }
                        ren(&mut e.node, map);
                    }
                }
            }
        }
        let mut q2 = q.clone();
        let mut map = BTreeMap::new();
        ren(&mut q2.node, &mut map);
        // implicit tag names (Dir::Tag(None)) keep their name, so uses of them must not be renamed:
        // the generator only emits explicit tag names; bail out if an implicit tag exists.
        let has_implicit_tag = q.text().contains("@tag\n") || q.text().contains("@tag ");
        if q2 != *q && !has_implicit_tag {
            push("T7-rename", format!("{} outputs renamed", map.len()), Relation::EqualRenamed(map), &q2, None, vec![], vec![], &mut out);
        }
    }
    let _ = (EdgeUse::new("x"), PropUse::new("x"));
    out
}

fn sub_multiset(a: &[String], b: &[String]) -> bool {
    // both sorted
    let (mut i, mut j) = (0, 0);
    while i < a.len() {
        while j < b.len() && b[j] < a[i] {
            j += 1;
        }
        if j >= b.len() || b[j] != a[i] {
            return false;
        }
        i += 1;
        j += 1;
    }
    true
}

#[derive(Default)]
pub struct Counters {
    pub pairs: AtomicU64,
    pub informative: AtomicU64,
    pub variant_arg_rejected: AtomicU64,
    pub by_kind: Mutex<BTreeMap<&'static str, (u64, u64)>>,
}

thread_local! {
    static CACHE: RefCell<(String, Vec<Variant>)> = RefCell::new((String::new(), vec![]));
}

fn run_q(uni: &Universe, case: &Case<'_>, iq: &Arc<IndexedQuery>, args: &Args) -> Exec {
    engine::execute(Arc::new(GraphAdapter::new(uni.world.clone(), case.ds.clone())), iq.clone(), args)
}

pub fn check_case(ctx: &Ctx, uni: &Universe, case: &Case<'_>, c: &Counters, samples: &Mutex<Samples>) {
    let base = match run_q(uni, case, &case.cq.iq, case.args) {
        Exec::Rows(r) => r,
        _ => return,
    };
    let base_ms = engine::canon_rows_multiset(&base);
    let vs = CACHE.with(|cache| {
        let mut cache = cache.borrow_mut();
        if cache.0 != case.cq.text {
            *cache = (case.cq.text.clone(), variants(uni, &case.cq.q, ctx.tier == crate::common::Tier::Thorough || case.cq.layer <= 1 || ctx.replay.is_some()));
        }
        cache.1.clone()
    });
    for v in &vs {
        // argument maps of the variant: original arguments (+ list wraps) x extra variable domains
        let mut maps: Vec<Args> = vec![{
            let mut m = case.args.clone();
            for (old, new) in &v.list_wrap {
                if let Some(x) = m.remove(old) {
                    m.insert(new.clone(), values::list(vec![x]));
                }
            }
            m
        }];
        for (name, dom) in &v.extra_vars {
            let mut next = vec![];
            for m in &maps {
                for x in dom {
                    let mut m2 = m.clone();
                    m2.insert(name.clone(), x.clone());
                    next.push(m2);
                }
            }
            maps = next;
        }
        for args2 in &maps {
            let got = run_q(uni, case, &v.iq, args2);
            let rows2 = match &got {
                Exec::Rows(r) => r.clone(),
                Exec::ArgError(_) => {
                    c.variant_arg_rejected.fetch_add(1, Ordering::Relaxed);
                    continue;
                }
                Exec::Panic { .. } => continue, // C09
            };
            let ms2 = engine::canon_rows_multiset(&rows2);
            let mut second_rows = None;
            let (ok, informative) = match &v.relation {
                Relation::Subset => (sub_multiset(&ms2, &base_ms), ms2.len() < base_ms.len()),
                Relation::Superset => (sub_multiset(&base_ms, &ms2), ms2.len() > base_ms.len()),
                Relation::Equal => (ms2 == base_ms, !base_ms.is_empty()),
                Relation::EqualRenamed(map) => {
                    let renamed: Vec<engine::Row> = base.iter().map(|r| r.iter().map(|(k, x)| (Arc::from(map.get(k.as_ref()).cloned().unwrap_or_else(|| k.to_string()).as_str()), x.clone())).collect()).collect();
                    (engine::canon_rows_multiset(&renamed) == ms2, !base_ms.is_empty())
                }
                Relation::Partition => {
                    let (_, iq_b) = v.second.as_ref().unwrap();
                    match run_q(uni, case, iq_b, args2) {
                        Exec::Rows(rb) => {
                            let mut all = ms2.clone();
                            all.extend(engine::canon_rows_multiset(&rb));
                            all.sort();
                            let inf = !ms2.is_empty() && !rb.is_empty();
                            second_rows = Some(rb);
                            (all == base_ms, inf)
                        }
                        _ => continue,
                    }
                }
            };
            c.pairs.fetch_add(1, Ordering::Relaxed);
            {
                let mut bk = c.by_kind.lock().unwrap();
                let e = bk.entry(v.kind).or_insert((0, 0));
                e.0 += 1;
                e.1 += informative as u64;
            }
            if informative {
                c.informative.fetch_add(1, Ordering::Relaxed);
            }
            if !ok {
                let mut rep = case.replay();
                rep["transformation"] = json!({"kind": v.kind, "what": v.what, "relation": format!("{:?}", v.relation)});
                rep["variant_query_text"] = json!(v.text);
                rep["variant_arguments"] = engine::args_json(args2);
                if let Some((t, _)) = &v.second {
                    rep["second_variant_query_text"] = json!(t);
                    rep["second_variant_rows"] = json!(second_rows.as_ref().map(|r| engine::rows_json(r)));
                }
                rep["original_rows"] = engine::rows_json(&base);
                rep["observed"] = json!({"variant_rows": engine::rows_json(&rows2)});
                rep["expected"] = json!(format!("{:?} relation between original and variant rows", v.relation).chars().take(120).collect::<String>());
                ctx.fail(&format!("transformation-{}", v.kind), "a query transformation with a known effect changed the results differently", rep);
            } else if informative && c.informative.load(Ordering::Relaxed) % 200_003 == 1 {
                samples.lock().unwrap().offer(|| json!({"kind": v.kind, "what": v.what, "query_text": case.cq.text, "variant_query_text": v.text, "dataset": case.ds.name, "arguments": engine::args_json(args2), "rows_original": base.len(), "rows_variant": rows2.len()}));
            }
        }
    }
}

pub fn run(ctx: &Ctx) -> ! {
    let uni = Universe::sverif();
    let counters = Counters::default();
    let samples = Mutex::new(Samples::new(6));
    if let Some(path) = &ctx.replay {
        let v: serde_json::Value = serde_json::from_str(&std::fs::read_to_string(path).unwrap_or_else(|e| crate::common::machinery(&format!("{e}")))).unwrap();
        let (cq, ds, args) = corpus::case_from_replay(&uni, &v).unwrap_or_else(|e| crate::common::machinery(&e));
        check_case(ctx, &uni, &Case { cq: &cq, ds: &ds, args: &args }, &counters, &samples);
        let mut c = cov();
        c.insert("evaluations".into(), json!(counters.pairs.load(Ordering::Relaxed)));
        c.insert("distinct_nontrivial".into(), json!(counters.informative.load(Ordering::Relaxed)));
        ctx.finish("exploration", c, vec![]);
    }
    let distinct: Mutex<BTreeSet<u64>> = Mutex::new(BTreeSet::new());
    let mut cfg = CorpusCfg::new(ctx.tier.pick(2, 3));
    cfg.gen.naming_devs = true;
    cfg.max_arg_maps = ctx.tier.pick(2, 4);
    cfg.stream_share = 1.0;
    let stats = corpus::drive(
        ctx,
        &uni,
        &cfg,
        &|_| {},
        &|case| {
            check_case(ctx, &uni, case, &counters, &samples);
            distinct.lock().unwrap().insert(crate::common::fnv(case.cq.text.as_bytes()));
        },
        &|_, _| {},
    );
    let mut c = cov();
    c.insert("evaluations".into(), json!(counters.pairs.load(Ordering::Relaxed)));
    c.insert("distinct_nontrivial".into(), json!(counters.informative.load(Ordering::Relaxed)));
    c.insert("rule".into(), json!("for every accepted query within k deviations and every applicable instance of T1 add-filter, T2 raise-depth, T3 make-optional, T4 parameter-vs-filter, T5 eq-vs-one_of, T6 negation-partition, T7 rename, T8 sibling-reorder (conditions in props/c23.rs; in the quick tier T1 and T6 are applied to queries within k-1 deviations only): original and variant(s) run on the real engine over 10 datasets and argument maps; evaluations = (original, variant, dataset, arguments) comparisons; non-trivial = comparisons in which the relation was informative (strictly fewer / more rows, both partition sides non-empty, or non-empty equal results)"));
    c.insert("comparisons_by_transformation".into(), json!(counters.by_kind.lock().unwrap().iter().map(|(k, v)| (k.to_string(), json!({"comparisons": v.0, "informative": v.1}))).collect::<BTreeMap<_, _>>()));
    c.insert("variant_argument_maps_rejected".into(), json!(counters.variant_arg_rejected.load(Ordering::Relaxed)));
    c.insert("distinct_original_queries".into(), json!(distinct.lock().unwrap().len()));
    c.insert("corpus".into(), stats.to_json());
    c.insert("samples".into(), json!(samples.lock().unwrap().items));
    c.insert("exhaustive".into(), json!(!stats.capped));
    ctx.finish(
        "exploration",
        c,
        vec![
            "metamorphic: both sides are executions of the real engine; no reference evaluator involved".into(),
            "applicability conditions (not inside a fold; T6 also not inside @optional; T4 not @optional/@recurse) are part of the oracle".into(),
            "nb(min, tag) is defined by the dataset layer as next-neighbours with n >= min (and s = tag when tag is non-null)".into(),
        ],
    )
}
