//! C24 — schemas and compiled queries can be shared across threads.
//! (a) Static: `Send + Sync` instantiations for every shared type (a compile error here is turned
//!     into a C24 verdict by ./check) — the compiler's auto-trait derivation, the precondition of (b).
//! (b) Model checking: shuttle's exhaustive DFS scheduler over 2 threads that each compile a query
//!     against a shared `Arc<Schema>` and execute a shared `Arc<IndexedQuery>` (plus their own) with
//!     different arguments, with a scheduling point at every adapter resolver call (and, where the
//!     schedule space stays small, at every yielded item). Every interleaving must reproduce the
//!     sequential IR and rows.

use std::{
    collections::BTreeMap,
    sync::{
        atomic::{AtomicBool, AtomicU64, Ordering},
        Arc, Mutex,
    },
};

use rayon::prelude::*;
use serde_json::json;
use trustfall_core::{
    frontend,
    interpreter::{execution::interpret_ir, Adapter, AsVertex, ContextIterator, ContextOutcomeIterator, ResolveEdgeInfo, ResolveInfo, VertexIterator},
    ir::{EdgeParameters, FieldValue as FV, IRQuery, IndexedQuery},
    schema::Schema,
};

use crate::{
    common::{cov, Ctx, Samples},
    dataset::{self, Dataset, World},
    engine::{self, Args, Row},
    graph_adapter::{GraphAdapter, V},
    values::{i, s},
};

// ---- (a) static thread-safety assertions
fn _assert_send_sync<T: Send + Sync>() {}
#[allow(dead_code)]
fn _static_assertions() {
    _assert_send_sync::<Schema>();
    _assert_send_sync::<IndexedQuery>();
    _assert_send_sync::<IRQuery>();
    _assert_send_sync::<trustfall_core::ir::IRQueryComponent>();
    _assert_send_sync::<trustfall_core::ir::IRVertex>();
    _assert_send_sync::<trustfall_core::ir::IREdge>();
    _assert_send_sync::<trustfall_core::ir::IRFold>();
    _assert_send_sync::<trustfall_core::ir::FieldValue>();
    _assert_send_sync::<trustfall_core::ir::Type>();
    _assert_send_sync::<trustfall_core::ir::EdgeParameters>();
    _assert_send_sync::<trustfall_core::ir::Output>();
    _assert_send_sync::<trustfall_core::ir::TransparentValue>();
    _assert_send_sync::<trustfall_core::frontend::error::FrontendError>();
    _assert_send_sync::<trustfall_core::interpreter::error::QueryArgumentsError>();
    _assert_send_sync::<trustfall_core::schema::error::InvalidSchemaError>();
    _assert_send_sync::<Arc<Schema>>();
    _assert_send_sync::<Arc<IndexedQuery>>();
}

// ---- (b) the yielding adapter
thread_local! {
    static YIELDS: std::cell::Cell<u64> = const { std::cell::Cell::new(0) };
    static IN_SHUTTLE: std::cell::Cell<bool> = const { std::cell::Cell::new(false) };
}

fn yield_point() {
    YIELDS.with(|y| y.set(y.get() + 1));
    if IN_SHUTTLE.with(|x| x.get()) {
        shuttle::thread::yield_now();
    }
}

pub struct YieldingAdapter {
    inner: GraphAdapter,
    per_item: bool,
}

impl Adapter<'static> for YieldingAdapter {
    type Vertex = V;
    fn resolve_starting_vertices(&self, e: &Arc<str>, p: &EdgeParameters, i: &ResolveInfo) -> VertexIterator<'static, V> {
        yield_point();
        let it = self.inner.resolve_starting_vertices(e, p, i);
        if self.per_item {
            Box::new(it.inspect(|_| yield_point()))
        } else {
            it
        }
    }
    fn resolve_property<X: AsVertex<V> + 'static>(&self, c: ContextIterator<'static, X>, t: &Arc<str>, p: &Arc<str>, i: &ResolveInfo) -> ContextOutcomeIterator<'static, X, FV> {
        yield_point();
        let it = self.inner.resolve_property(c, t, p, i);
        if self.per_item {
            Box::new(it.inspect(|_| yield_point()))
        } else {
            it
        }
    }
    fn resolve_neighbors<X: AsVertex<V> + 'static>(&self, c: ContextIterator<'static, X>, t: &Arc<str>, e: &Arc<str>, p: &EdgeParameters, i: &ResolveEdgeInfo) -> ContextOutcomeIterator<'static, X, VertexIterator<'static, V>> {
        yield_point();
        let it = self.inner.resolve_neighbors(c, t, e, p, i);
        if self.per_item {
            Box::new(it.inspect(|_| yield_point()))
        } else {
            it
        }
    }
    fn resolve_coercion<X: AsVertex<V> + 'static>(&self, c: ContextIterator<'static, X>, t: &Arc<str>, to: &Arc<str>, i: &ResolveInfo) -> ContextOutcomeIterator<'static, X, bool> {
        yield_point();
        let it = self.inner.resolve_coercion(c, t, to, i);
        if self.per_item {
            Box::new(it.inspect(|_| yield_point()))
        } else {
            it
        }
    }
}

pub struct Program {
    pub name: &'static str,
    pub dataset: &'static str,
    pub shared_query: &'static str,
    /// per thread: (arguments for the shared query, own query text, arguments for the own query)
    pub threads: Vec<(Args, &'static str, Args)>,
}

fn args(kv: &[(&str, FV)]) -> Args {
    kv.iter().map(|(k, v)| (k.to_string(), v.clone())).collect()
}

pub fn programs() -> Vec<Program> {
    vec![
        Program {
            name: "regex-filter + fold with imported tag",
            dataset: "twocycle",
            shared_query: "{ One { id @output n @tag(name: \"t\") s @filter(op: \"regex\", value: [\"$r\"]) next @fold { id @output(name: \"ids\") n @filter(op: \">=\", value: [\"%t\"]) } } }",
            threads: vec![(args(&[("r", s("a"))]), "{ One { id @output next { n @output(name: \"nn\") } } }", args(&[])), (args(&[("r", s(".*"))]), "{ One { s @output one @optional { id @output(name: \"oid\") } } }", args(&[]))],
        },
        Program {
            name: "fold count filter + optional",
            dataset: "selfloop",
            shared_query: "{ One { id @output next @fold @transform(op: \"count\") @filter(op: \">=\", value: [\"$k\"]) @output(name: \"c\") { n @output(name: \"ns\") } one @optional { s @output(name: \"os\") } } }",
            threads: vec![(args(&[("k", i(0))]), "{ FirstA { id @output up @recurse(depth: 1) { n @output(name: \"un\") } } }", args(&[])), (args(&[("k", i(2))]), "{ One { id @output n @filter(op: \"one_of\", value: [\"$l\"]) } }", args(&[("l", crate::values::list(vec![i(1), i(2)]))]))],
        },
        Program {
            name: "coercion + recursion",
            dataset: "twocycle",
            shared_query: "{ One { ... on A { id @output __typename @filter(op: \"=\", value: [\"$ty\"]) up @recurse(depth: 2) { n @output(name: \"un\") } } } }",
            threads: vec![(args(&[("ty", s("A"))]), "{ One { id @output __typename @output(name: \"ty\") } }", args(&[])), (args(&[("ty", s("B"))]), "{ One { id @output next { ... on B { back { id @output(name: \"b\") } } } } }", args(&[]))],
        },
        Program {
            name: "three vertices, tag filter",
            dataset: "twocycle",
            shared_query: "{ One { id @output n @tag(name: \"t\") next { n @filter(op: \">\", value: [\"%t\"]) id @output(name: \"i2\") } } }",
            threads: vec![(args(&[]), "{ V(min: 1) { id @output } }", args(&[])), (args(&[]), "{ V { id @output s @filter(op: \"has_prefix\", value: [\"$p\"]) } }", args(&[("p", s("a"))]))],
        },
        Program {
            name: "nested folds",
            dataset: "twocycle",
            shared_query: "{ One { id @output next @fold { n @output(name: \"a\") next @fold @transform(op: \"count\") @output(name: \"cc\") { id @output(name: \"b\") } } } }",
            threads: vec![(args(&[]), "{ One { id @output nb(min: 2) @fold { id @output(name: \"x\") } } }", args(&[])), (args(&[]), "{ One { id @output nb { id @output(name: \"y\") } } }", args(&[]))],
        },
    ]
}

struct Expected {
    ir: String,
    shared_rows: Vec<Row>,
    own_rows: Vec<Row>,
}

fn run_rows(world: &Arc<World>, ds: &Arc<Dataset>, iq: &Arc<IndexedQuery>, a: &Args, per_item: bool) -> Vec<Row> {
    let adapter = Arc::new(YieldingAdapter { inner: GraphAdapter::new(world.clone(), ds.clone()), per_item });
    interpret_ir(adapter, iq.clone(), engine::to_arc_args(a)).expect("arguments accepted").collect()
}

pub struct Outcome {
    pub schedules: u64,
    pub yields_per_thread: Vec<u64>,
    pub per_item: bool,
    pub capped: bool,
    pub failure: Option<String>,
}

pub fn explore(p: &Program, nthreads: usize, per_item: bool, own_too: bool, max_schedules: Option<usize>, fail_dir: &str) -> Outcome {
    let world = Arc::new(World::sverif());
    let ds = Arc::new(dataset::curated().into_iter().find(|d| d.name == p.dataset).expect("dataset"));
    let schema = Arc::new(engine::parse_schema(dataset::SVERIF_TEXT));
    let shared_iq = frontend::parse(&schema, p.shared_query).unwrap_or_else(|e| crate::common::machinery(&format!("C24 shared query rejected: {e}")));
    // sequential expectations (and yield counts)
    let mut expected = vec![];
    let mut yields = vec![];
    for (a, own_text, own_args) in p.threads.iter().take(nthreads) {
        YIELDS.with(|y| y.set(0));
        let own = frontend::parse(&schema, own_text).unwrap_or_else(|e| crate::common::machinery(&format!("C24 own query rejected: {e}")));
        let shared_rows = run_rows(&world, &ds, &shared_iq, a, per_item);
        let own_rows = if own_too { run_rows(&world, &ds, &own, own_args, per_item) } else { vec![] };
        yields.push(YIELDS.with(|y| y.get()) + 1);
        expected.push(Expected { ir: format!("{:?}", own.ir_query), shared_rows, own_rows });
    }
    let expected = Arc::new(expected);
    let threads: Arc<Vec<(Args, &'static str, Args)>> = Arc::new(p.threads.iter().take(nthreads).cloned().collect());
    let failure: Arc<Mutex<Option<String>>> = Arc::new(Mutex::new(None));
    let failure2 = failure.clone();
    let mut config = shuttle::Config::new();
    std::fs::create_dir_all(fail_dir).ok();
    config.failure_persistence = shuttle::FailurePersistence::File(Some(std::path::PathBuf::from(fail_dir)));
    config.max_steps = shuttle::MaxSteps::FailAfter(5_000_000);
    config.silence_warnings = true;
    let scheduler = shuttle::scheduler::DfsScheduler::new(max_schedules, false);
    let runner = shuttle::Runner::new(scheduler, config);
    let body = move || {
        IN_SHUTTLE.with(|x| x.set(true));
        let mut handles = vec![];
        for t in 0..threads.len() {
            let (schema, shared_iq, world, ds, expected, threads, failure) = (schema.clone(), shared_iq.clone(), world.clone(), ds.clone(), expected.clone(), threads.clone(), failure2.clone());
            handles.push(shuttle::thread::spawn(move || {
                IN_SHUTTLE.with(|x| x.set(true));
                let (a, own_text, own_args) = &threads[t];
                yield_point();
                let own = frontend::parse(&schema, own_text).expect("own query compiles");
                let mut problems = vec![];
                if format!("{:?}", own.ir_query) != expected[t].ir {
                    problems.push(format!("thread {t}: compiled IR differs from the sequential compilation"));
                }
                let rows = run_rows(&world, &ds, &shared_iq, a, per_item);
                if rows != expected[t].shared_rows {
                    problems.push(format!("thread {t}: rows of the shared compiled query differ: {} vs sequential {}", engine::rows_json(&rows), engine::rows_json(&expected[t].shared_rows)));
                }
                if own_too {
                    let rows = run_rows(&world, &ds, &own, own_args, per_item);
                    if rows != expected[t].own_rows {
                        problems.push(format!("thread {t}: rows of the thread's own query differ: {} vs sequential {}", engine::rows_json(&rows), engine::rows_json(&expected[t].own_rows)));
                    }
                }
                if !problems.is_empty() {
                    *failure.lock().unwrap() = Some(problems.join("; "));
                    panic!("C24 oracle: {}", problems.join("; "));
                }
            }));
        }
        for h in handles {
            h.join().expect("worker thread panicked");
        }
    };
    let r = crate::common::catch(move || runner.run(body));
    IN_SHUTTLE.with(|x| x.set(false));
    match r {
        Ok(n) => Outcome { schedules: n as u64, yields_per_thread: yields, per_item, capped: max_schedules.map(|m| n >= m).unwrap_or(false), failure: None },
        Err(p) => {
            let msg = failure.lock().unwrap().clone().unwrap_or_else(|| format!("panic during exploration: {} ({}:{})", p.message.lines().next().unwrap_or(""), p.file, p.line));
            Outcome { schedules: 0, yields_per_thread: yields, per_item, capped: false, failure: Some(msg) }
        }
    }
}

/// Part (c): see the comment at its call site.
fn free_running(ctx: &Ctx) -> serde_json::Value {
    use crate::values::list;
    let world = Arc::new(World::sverif());
    let schema = Arc::new(engine::parse_schema(dataset::SVERIF_TEXT));
    // 120 vertices; property s cycles through 6 regex patterns / strings, l through small lists
    let mut ds = Dataset::new("ring120");
    let pats = ["a", "b+", "^c", "[ab]", ".*", "("];
    for k in 0..120usize {
        let v = ds.add(if k % 2 == 0 { "A" } else { "B" }, vec![("id", i(k as i64)), ("n", i((k % 7) as i64)), ("s", s(pats[k % pats.len()])), ("l", list(vec![i((k % 3) as i64), i((k % 5) as i64)])), ("ls", FV::Null), ("f", FV::Null), ("b", FV::Null)]);
        let _ = v;
    }
    for k in 0..120usize {
        ds.edge(k, "next", (k + 1) % 120);
        ds.edge(k, "next", (k + 5) % 120);
        ds.edge(k, "one", (k + 2) % 120);
    }
    let ds = Arc::new(ds);
    let queries = [
        ("{ V { id @output s @tag(name: \"p\") next { s @filter(op: \"regex\", value: [\"%p\"]) id @output(name: \"i2\") } } }", args(&[])),
        ("{ V { id @output s @tag(name: \"p\") next { s @filter(op: \"not_regex\", value: [\"%p\"]) id @output(name: \"i2\") } } }", args(&[])),
        ("{ V { id @output s @filter(op: \"regex\", value: [\"$r\"]) next @fold @transform(op: \"count\") @output(name: \"c\") { n @filter(op: \">=\", value: [\"$k\"]) } } }", args(&[("r", s("[ab]")), ("k", i(3))])),
        ("{ V { id @output l @tag(name: \"t\") n @tag(name: \"m\") next @fold { n @filter(op: \"one_of\", value: [\"%t\"]) id @output(name: \"ids\") one @optional { n @filter(op: \"<=\", value: [\"%m\"]) id @output(name: \"o\") } } } }", args(&[])),
        ("{ V { id @output __typename @output(name: \"ty\") next @recurse(depth: 2) { n @output(name: \"rn\") } } }", args(&[])),
    ];
    let compiled: Vec<(Arc<IndexedQuery>, Args, Vec<Row>, String)> = queries
        .iter()
        .map(|(q, a)| {
            let iq = frontend::parse(&schema, q).unwrap_or_else(|e| crate::common::machinery(&format!("C24 free-running query rejected: {e}")));
            let rows = run_rows(&world, &ds, &iq, a, false);
            let ir = format!("{:?}", iq.ir_query);
            (iq, a.clone(), rows, ir)
        })
        .collect();
    let compiled = Arc::new(compiled);
    let nthreads = 8usize;
    let reps = ctx.tier.pick(6usize, 60usize);
    let runs = Arc::new(AtomicU64::new(0));
    let diffs: Arc<Mutex<Vec<String>>> = Arc::new(Mutex::new(vec![]));
    let barrier = Arc::new(std::sync::Barrier::new(nthreads));
    let handles: Vec<_> = (0..nthreads)
        .map(|t| {
            let (schema, world, ds, compiled, runs, diffs, barrier) = (schema.clone(), world.clone(), ds.clone(), compiled.clone(), runs.clone(), diffs.clone(), barrier.clone());
            let texts: Vec<String> = queries.iter().map(|(q, _)| q.to_string()).collect();
            std::thread::spawn(move || {
                barrier.wait();
                for r in 0..reps {
                    // stagger which query each thread runs so that different patterns overlap
                    let k = (t + r) % compiled.len();
                    let (iq, a, want, ir) = &compiled[k];
                    let outcome = crate::common::catch(|| {
                        let own = frontend::parse(&schema, &texts[k]).expect("compiles");
                        (format!("{:?}", own.ir_query) == *ir, run_rows(&world, &ds, iq, a, false))
                    });
                    runs.fetch_add(1, Ordering::Relaxed);
                    match outcome {
                        Ok((same_ir, rows)) => {
                            if !same_ir {
                                diffs.lock().unwrap().push(format!("thread {t} rep {r}: IR of query {k} differs from the sequential compilation"));
                            }
                            if rows != *want {
                                diffs.lock().unwrap().push(format!("thread {t} rep {r}: query {k} returned {} rows, the sequential run {} (or different contents)", rows.len(), want.len()));
                            }
                        }
                        Err(p) => diffs.lock().unwrap().push(format!("thread {t} rep {r}: panic {}", p.message.lines().next().unwrap_or(""))),
                    }
                }
            })
        })
        .collect();
    for h in handles {
        let _ = h.join();
    }
    let diffs = diffs.lock().unwrap().clone();
    if let Some(first) = diffs.first() {
        ctx.fail("free-running-threads-change-results", first, json!({"schema_id": "S-verif", "dataset": "ring120 (built in props/c24.rs)", "queries": queries.iter().map(|(q, _)| q.to_string()).collect::<Vec<_>>(), "threads": nthreads, "observed": diffs.iter().take(8).collect::<Vec<_>>(), "expected": "every concurrent run equals the sequential run", "note": "found by the free-running (sampling) supplement; re-run the check to reproduce"}));
    }
    json!({"threads": nthreads, "runs": runs.load(Ordering::Relaxed), "runs_differing": diffs.len(), "queries": queries.len(), "dataset_vertices": 120})
}

/// number of interleavings of threads with the given numbers of scheduling points
fn interleavings(points: &[u64]) -> f64 {
    let mut total = 0u64;
    let mut r = 1f64;
    for p in points {
        for k in 1..=*p {
            total += 1;
            r = r * total as f64 / k as f64;
        }
    }
    r
}

pub fn run(ctx: &Ctx) -> ! {
    // watchdog: a std Mutex held across a scheduling point by (mutated) engine code would block the
    // single OS thread shuttle runs on; that is a machinery failure, never a pass.
    let done = Arc::new(AtomicBool::new(false));
    {
        let done = done.clone();
        let limit = ctx.tier.pick(240u64, 1500u64);
        std::thread::spawn(move || {
            let start = std::time::Instant::now();
            while start.elapsed().as_secs() < limit {
                std::thread::sleep(std::time::Duration::from_millis(200));
                if done.load(Ordering::Relaxed) {
                    return;
                }
            }
            eprintln!("MACHINERY-ERROR: C24 watchdog: exploration did not finish within {limit} s (blocked scheduler?)");
            std::process::exit(2);
        });
    }
    let progs = programs();
    let samples = Mutex::new(Samples::new(6));
    let schedules = AtomicU64::new(0);
    let transitions = AtomicU64::new(0);
    let states = AtomicU64::new(0);
    let any_capped = AtomicBool::new(false);
    let details: Mutex<Vec<serde_json::Value>> = Mutex::new(vec![]);
    // exploration plan: (program, per-item yields?, own query too?)
    let budget_interleavings = ctx.tier.pick(2.0e5, 6.0e6);
    let mut plan: Vec<(usize, bool, bool)> = vec![];
    for (pi, _) in progs.iter().enumerate() {
        for (per_item, own_too) in [(false, false), (false, true), (true, false), (true, true)] {
            plan.push((pi, per_item, own_too));
        }
    }
    plan.par_iter().for_each(|(pi, per_item, own_too)| {
        let p = &progs[*pi];
        // dry run to size the schedule space
        let dry = explore(p, 2, *per_item, *own_too, Some(1), &format!("{}/replays/C24", crate::common::VERIF_ROOT));
        let space = interleavings(&dry.yields_per_thread);
        // each worker's start is a scheduling point too: the schedule count is the multinomial over (points + 1)
        let with_start: Vec<u64> = dry.yields_per_thread.iter().map(|p| p + 1).collect();
        let estimate = interleavings(&with_start);
        if dry.failure.is_none() && estimate > budget_interleavings {
            details.lock().unwrap().push(json!({"program": p.name, "per_item_yields": per_item, "own_query_too": own_too, "scheduling_points_per_thread": dry.yields_per_thread, "interleavings": estimate, "explored": "skipped: above this tier's bound"}));
            return;
        }
        let out = explore(p, 2, *per_item, *own_too, None, &format!("{}/replays/C24", crate::common::VERIF_ROOT));
        schedules.fetch_add(out.schedules, Ordering::Relaxed);
        let pts: u64 = out.yields_per_thread.iter().sum();
        transitions.fetch_add(out.schedules * pts, Ordering::Relaxed);
        states.fetch_add(out.schedules * pts, Ordering::Relaxed);
        if out.capped {
            any_capped.store(true, Ordering::Relaxed);
        }
        details.lock().unwrap().push(json!({"program": p.name, "per_item_yields": per_item, "own_query_too": own_too, "scheduling_points_per_thread": out.yields_per_thread, "interleavings_of_worker_points_lower_bound": space, "schedules_explored": out.schedules}));
        if let Some(f) = &out.failure {
            ctx.fail("thread-interleaving-changes-results", f, json!({"schema_id": "S-verif", "program": p.name, "shared_query": p.shared_query, "dataset": p.dataset, "per_item_yields": per_item, "own_query_too": own_too, "observed": f, "expected": "IR and rows equal to the sequential run in every interleaving", "schedule_file_dir": format!("{}/replays/C24", crate::common::VERIF_ROOT)}));
        } else if (out.schedules as f64) < space && !out.capped {
            crate::common::machinery(&format!("C24: shuttle explored {} schedules but at least {} interleavings of the workers' scheduling points exist for {:?} points", out.schedules, space, out.yields_per_thread));
        } else {
            samples.lock().unwrap().offer(|| json!({"program": p.name, "shared_query": p.shared_query, "threads": 2, "scheduling_points_per_thread": out.yields_per_thread, "schedules": out.schedules, "per_item_yields": per_item}));
        }
    });
    // ---- (c) free-running supplement (SAMPLING, not part of the exhaustive bound): real OS threads,
    // released together, repeatedly compile and execute shared queries over a larger dataset. The
    // DFS above interleaves at adapter-call granularity; a race between two statements inside one
    // engine step (e.g. check-then-act on a global cache) is only reachable here. A difference from
    // the sequential result is a real violation, but a pass of this part proves nothing.
    let free = free_running(ctx);
    done.store(true, Ordering::Relaxed);
    let mut d = details.lock().unwrap().clone();
    d.sort_by_key(|x| x.to_string());
    let mut c = cov();
    c.insert("states".into(), json!(states.load(Ordering::Relaxed).max(1)));
    c.insert("transitions".into(), json!(transitions.load(Ordering::Relaxed).max(1)));
    c.insert("traces_validated_against_impl".into(), json!(schedules.load(Ordering::Relaxed)));
    c.insert("evaluations".into(), json!(schedules.load(Ordering::Relaxed)));
    c.insert("distinct_nontrivial".into(), json!(schedules.load(Ordering::Relaxed)));
    c.insert("rule".into(), json!("shuttle DfsScheduler (exhaustive, no sampling) over 2 threads sharing Arc<Schema> and Arc<IndexedQuery>; each thread compiles its own query against the shared schema and executes the shared compiled query (and, in the larger configurations, its own) with its own arguments; scheduling points = one before compiling + one per adapter resolver call (+ one per yielded item in the per-item configurations); every schedule is an execution of the real engine and must reproduce the sequential IR and rows; the number of schedules explored must be at least the multinomial count of interleavings of the workers' own points (checked; spawn and join add further scheduling points). states = scheduling points visited, transitions = scheduling decisions"));
    c.insert("configurations".into(), json!(d));
    c.insert("samples".into(), json!(samples.lock().unwrap().items));
    c.insert("static_send_sync_assertions".into(), json!(17));
    c.insert("free_running_supplement (sampling, outside the exhaustive bound)".into(), free);
    c.insert("exhaustive".into(), json!(!any_capped.load(Ordering::Relaxed)));
    let _ = BTreeMap::<u8, u8>::new();
    ctx.finish(
        "model_checking",
        c,
        vec![
            "interleavings are explored at adapter-call (and item) granularity; std's OnceLock / Arc internals are trusted".into(),
            "shuttle runs its threads as continuations on one OS thread: engine code using std thread_local state would look shared here (none exists on the pinned tree)".into(),
            "configurations whose interleaving count exceeds the tier bound are listed as skipped".into(),
        ],
    )
}
