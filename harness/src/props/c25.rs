//! C25 — the adapter invariant checker catches every contract violation it documents.
//! Fault enumeration: for each schema, the honest generic adapter must pass
//! `check_adapter_invariants`; then for every (fault kind x resolver x type x field x position)
//! inside the checker's documented scope a wrapper commits exactly that one violation and the
//! checker must fail (panic).

use std::{
    collections::BTreeMap,
    sync::{
        atomic::{AtomicU64, Ordering},
        Arc, Mutex,
    },
};

use rayon::prelude::*;
use serde_json::json;
use trustfall_core::{
    interpreter::{helpers::check_adapter_invariants, Adapter, AsVertex, ContextIterator, ContextOutcomeIterator, ResolveEdgeInfo, ResolveInfo, VertexIterator},
    ir::{EdgeParameters, FieldValue as FV},
    schema::Schema,
};

use crate::{
    common::{catch, cov, Ctx, Samples},
    dataset::{Dataset, World},
    graph_adapter::{GraphAdapter, V},
    props::c19,
    schema_gen::{self, Verdict},
    schema_model::SchemaModel,
};

#[derive(Clone, Copy, Debug, PartialEq, Eq, PartialOrd, Ord)]
pub enum Fault {
    /// swap the contexts at output positions (pos, pos + 1)
    Reorder,
    /// a non-null property value for a context without an active vertex
    NonNullProperty,
    /// one neighbour for a context without an active vertex
    Neighbor,
    /// `true` coercion for a context without an active vertex
    TrueCoercion,
    /// lose one context (not in the property's list; reported separately)
    Drop,
}

#[derive(Clone, Copy, Debug, PartialEq, Eq, PartialOrd, Ord)]
pub enum Resolver {
    Property,
    Neighbors,
    Coercion,
}

#[derive(Clone, Debug)]
pub struct Target {
    pub resolver: Resolver,
    pub ty: String,
    pub field: String,
    pub fault: Fault,
    pub pos: usize,
}

pub struct FaultInjector {
    pub inner: GraphAdapter,
    pub target: Option<Target>,
    pub fired: std::cell::Cell<bool>,
}

fn swap_adjacent<T>(mut v: Vec<T>, pos: usize) -> Vec<T> {
    if pos + 1 < v.len() {
        v.swap(pos, pos + 1);
    }
    v
}

impl FaultInjector {
    fn hit(&self, r: Resolver, ty: &str, field: &str) -> Option<&Target> {
        self.target.as_ref().filter(|t| t.resolver == r && t.ty == ty && t.field == field)
    }
}

impl Adapter<'static> for FaultInjector {
    type Vertex = V;

    fn resolve_starting_vertices(&self, edge_name: &Arc<str>, parameters: &EdgeParameters, info: &ResolveInfo) -> VertexIterator<'static, V> {
        self.inner.resolve_starting_vertices(edge_name, parameters, info)
    }

    fn resolve_property<X: AsVertex<V> + 'static>(&self, contexts: ContextIterator<'static, X>, type_name: &Arc<str>, property_name: &Arc<str>, info: &ResolveInfo) -> ContextOutcomeIterator<'static, X, FV> {
        let out = self.inner.resolve_property(contexts, type_name, property_name, info);
        match self.hit(Resolver::Property, type_name, property_name) {
            None => out,
            Some(t) => {
                self.fired.set(true);
                let mut items: Vec<_> = out.collect();
                match t.fault {
                    Fault::Reorder => items = swap_adjacent(items, t.pos),
                    Fault::NonNullProperty => {
                        if let Some(x) = items.get_mut(t.pos) {
                            if x.0.active_vertex::<V>().is_none() {
                                x.1 = FV::Int64(1);
                            }
                        }
                    }
                    Fault::Drop => {
                        if t.pos < items.len() {
                            items.remove(t.pos);
                        }
                    }
                    _ => {}
                }
                Box::new(items.into_iter())
            }
        }
    }

    fn resolve_neighbors<X: AsVertex<V> + 'static>(
        &self,
        contexts: ContextIterator<'static, X>,
        type_name: &Arc<str>,
        edge_name: &Arc<str>,
        parameters: &EdgeParameters,
        info: &ResolveEdgeInfo,
    ) -> ContextOutcomeIterator<'static, X, VertexIterator<'static, V>> {
        let out = self.inner.resolve_neighbors(contexts, type_name, edge_name, parameters, info);
        match self.hit(Resolver::Neighbors, type_name, edge_name) {
            None => out,
            Some(t) => {
                self.fired.set(true);
                let mut items: Vec<_> = out.collect();
                match t.fault {
                    Fault::Reorder => items = swap_adjacent(items, t.pos),
                    Fault::Neighbor => {
                        if let Some(x) = items.get_mut(t.pos) {
                            if x.0.active_vertex::<V>().is_none() {
                                x.1 = Box::new(std::iter::once(V(0)));
                            }
                        }
                    }
                    Fault::Drop => {
                        if t.pos < items.len() {
                            items.remove(t.pos);
                        }
                    }
                    _ => {}
                }
                Box::new(items.into_iter())
            }
        }
    }

    fn resolve_coercion<X: AsVertex<V> + 'static>(&self, contexts: ContextIterator<'static, X>, type_name: &Arc<str>, coerce_to_type: &Arc<str>, info: &ResolveInfo) -> ContextOutcomeIterator<'static, X, bool> {
        let out = self.inner.resolve_coercion(contexts, type_name, coerce_to_type, info);
        match self.hit(Resolver::Coercion, type_name, coerce_to_type) {
            None => out,
            Some(t) => {
                self.fired.set(true);
                let mut items: Vec<_> = out.collect();
                match t.fault {
                    Fault::Reorder => items = swap_adjacent(items, t.pos),
                    Fault::TrueCoercion => {
                        if let Some(x) = items.get_mut(t.pos) {
                            if x.0.active_vertex::<V>().is_none() {
                                x.1 = true;
                            }
                        }
                    }
                    Fault::Drop => {
                        if t.pos < items.len() {
                            items.remove(t.pos);
                        }
                    }
                    _ => {}
                }
                Box::new(items.into_iter())
            }
        }
    }
}

/// Every fault target inside the checker's documented scope, plus the number of edges excluded
/// because they take a non-nullable parameter without a default.
pub fn targets(sm: &SchemaModel) -> (Vec<Target>, usize) {
    let mut out = vec![];
    let mut excluded = 0;
    let positions = [0usize, 4, 7];
    for t in sm.types.values().filter(|t| t.name != sm.root) {
        let mut props: Vec<String> = t.fields.iter().filter(|f| !sm.types.contains_key(f.ty.base())).map(|f| f.name.clone()).collect();
        props.push("__typename".into());
        for p in props {
            for pos in positions {
                for fault in [Fault::Reorder, Fault::NonNullProperty, Fault::Drop] {
                    out.push(Target { resolver: Resolver::Property, ty: t.name.clone(), field: p.clone(), fault, pos });
                }
            }
        }
        for e in t.fields.iter().filter(|f| sm.types.contains_key(f.ty.base())) {
            if e.params.iter().any(|p| !p.ty.nullable() && p.default.is_none()) {
                excluded += 1;
                continue;
            }
            for pos in positions {
                for fault in [Fault::Reorder, Fault::Neighbor, Fault::Drop] {
                    out.push(Target { resolver: Resolver::Neighbors, ty: t.name.clone(), field: e.name.clone(), fault, pos });
                }
            }
        }
        for i in &t.implements {
            for pos in positions {
                for fault in [Fault::Reorder, Fault::TrueCoercion, Fault::Drop] {
                    out.push(Target { resolver: Resolver::Coercion, ty: i.clone(), field: t.name.clone(), fault, pos });
                }
            }
        }
    }
    (out, excluded)
}

#[derive(Default)]
pub struct Counters {
    schemas: AtomicU64,
    honest_runs: AtomicU64,
    faults: AtomicU64,
    caught: AtomicU64,
    drop_faults: AtomicU64,
    drop_caught: AtomicU64,
    excluded_edges: AtomicU64,
}

pub fn check_schema(ctx: &Ctx, origin: &str, text: &str, c: &Counters, samples: &Mutex<Samples>) {
    let schema: Schema = match c19::parse(text) {
        c19::Parsed::Ok(s) => *s,
        _ => return,
    };
    c.schemas.fetch_add(1, Ordering::Relaxed);
    let sm = Arc::new(SchemaModel::parse(text));
    let world = Arc::new(World::generic(sm.clone()));
    let ds = Arc::new(Dataset::new("empty"));
    let mk = |target: Option<Target>| FaultInjector { inner: GraphAdapter::new(world.clone(), ds.clone()), target, fired: std::cell::Cell::new(false) };
    // the honest adapter passes
    c.honest_runs.fetch_add(1, Ordering::Relaxed);
    if let Err(p) = catch(|| check_adapter_invariants(&schema, mk(None))) {
        ctx.fail("honest-adapter-rejected", "check_adapter_invariants failed for an adapter that honours the contract", json!({"schema_text": text, "origin": origin, "observed": p.to_json(), "expected": "pass"}));
        return;
    }
    let (ts, excluded) = targets(&sm);
    c.excluded_edges.fetch_add(excluded as u64, Ordering::Relaxed);
    for t in ts {
        let inj = mk(Some(t.clone()));
        let fired = std::rc::Rc::new(std::cell::Cell::new(false));
        let fired2 = fired.clone();
        let schema = &schema;
        let r = catch(move || {
            let inj = inj;
            // the injector is consumed by the checker; observe `fired` through a wrapper
            struct Obs(FaultInjector, std::rc::Rc<std::cell::Cell<bool>>);
            impl Adapter<'static> for Obs {
                type Vertex = V;
                fn resolve_starting_vertices(&self, e: &Arc<str>, p: &EdgeParameters, i: &ResolveInfo) -> VertexIterator<'static, V> {
                    self.0.resolve_starting_vertices(e, p, i)
                }
                fn resolve_property<X: AsVertex<V> + 'static>(&self, c: ContextIterator<'static, X>, t: &Arc<str>, p: &Arc<str>, i: &ResolveInfo) -> ContextOutcomeIterator<'static, X, FV> {
                    let r = self.0.resolve_property(c, t, p, i);
                    self.1.set(self.1.get() || self.0.fired.get());
                    r
                }
                fn resolve_neighbors<X: AsVertex<V> + 'static>(&self, c: ContextIterator<'static, X>, t: &Arc<str>, e: &Arc<str>, p: &EdgeParameters, i: &ResolveEdgeInfo) -> ContextOutcomeIterator<'static, X, VertexIterator<'static, V>> {
                    let r = self.0.resolve_neighbors(c, t, e, p, i);
                    self.1.set(self.1.get() || self.0.fired.get());
                    r
                }
                fn resolve_coercion<X: AsVertex<V> + 'static>(&self, c: ContextIterator<'static, X>, t: &Arc<str>, to: &Arc<str>, i: &ResolveInfo) -> ContextOutcomeIterator<'static, X, bool> {
                    let r = self.0.resolve_coercion(c, t, to, i);
                    self.1.set(self.1.get() || self.0.fired.get());
                    r
                }
            }
            check_adapter_invariants(schema, Obs(inj, fired2))
        });
        let is_drop = t.fault == Fault::Drop;
        if is_drop {
            c.drop_faults.fetch_add(1, Ordering::Relaxed);
        } else {
            c.faults.fetch_add(1, Ordering::Relaxed);
        }
        match r {
            Err(_) => {
                if is_drop {
                    c.drop_caught.fetch_add(1, Ordering::Relaxed);
                } else {
                    c.caught.fetch_add(1, Ordering::Relaxed);
                    if c.caught.load(Ordering::Relaxed) % 9001 == 3 {
                        samples.lock().unwrap().offer(|| json!({"origin": origin, "fault": format!("{:?}", t.fault), "resolver": format!("{:?}", t.resolver), "type": t.ty, "field": t.field, "position": t.pos, "checker": "failed, as required"}));
                    }
                }
            }
            Ok(()) => {
                let what = if fired.get() { "the checker passed although the adapter committed the violation during the check" } else { "the checker never called the faulty resolver for this (type, field), which is inside its documented scope" };
                let key = format!("checker-missed:{:?}:{:?}{}", t.fault, t.resolver, if fired.get() { "" } else { ":never-called" });
                if is_drop {
                    // not one of the violations the property lists: counted, not a verdict
                } else {
                    ctx.fail(&key, what, json!({"schema_text": text, "origin": origin, "fault": format!("{:?}", t.fault), "resolver": format!("{:?}", t.resolver), "type": t.ty, "field": t.field, "position": t.pos, "observed": "check_adapter_invariants passed", "expected": "panic"}));
                }
            }
        }
    }
}

pub fn run(ctx: &Ctx) -> ! {
    let counters = Counters::default();
    let samples = Mutex::new(Samples::new(5));
    if let Some(path) = &ctx.replay {
        let v: serde_json::Value = serde_json::from_str(&std::fs::read_to_string(path).unwrap_or_else(|e| crate::common::machinery(&format!("{e}")))).unwrap();
        check_schema(ctx, "replay", v["schema_text"].as_str().unwrap_or_default(), &counters, &samples);
        let mut c = cov();
        c.insert("evaluations".into(), json!(counters.faults.load(Ordering::Relaxed)));
        c.insert("distinct_nontrivial".into(), json!(counters.caught.load(Ordering::Relaxed)));
        ctx.finish("fault_enumeration", c, vec![]);
    }
    let budget = ctx.budget_s();
    let capped = std::sync::atomic::AtomicBool::new(false);
    for name in ["numbers", "filesystem", "nullables", "recurses", "parameterized_edges"] {
        let text = std::fs::read_to_string(format!("/repo/trustfall_core/test_data/schemas/{name}.graphql")).unwrap_or_else(|e| crate::common::machinery(&format!("{e}")));
        check_schema(ctx, name, &text, &counters, &samples);
    }
    check_schema(ctx, "S-verif", crate::dataset::SVERIF_TEXT, &counters, &samples);
    let layers = schema_gen::enumerate(&[schema_gen::skeleton(), schema_gen::skeleton_hierarchy()], 2);
    // quick: layers 0-1 completely and every 6th document of layer 2; thorough: all of layer 2
    let stride = ctx.tier.pick(6usize, 1usize);
    let docs: Vec<&schema_gen::SDoc> = layers.iter().enumerate().flat_map(|(li, l)| l.iter().enumerate().filter(move |(i, _)| li < 2 || i % stride == 0).map(|(_, d)| d)).filter(|d| !matches!(schema_gen::validate(d), Verdict::Invalid(_))).collect();
    docs.par_iter().for_each(|d| {
        if ctx.elapsed() > budget {
            capped.store(true, Ordering::Relaxed);
            return;
        }
        check_schema(ctx, "C19 family", &d.text(), &counters, &samples);
    });
    let mut c = cov();
    c.insert("evaluations".into(), json!(counters.faults.load(Ordering::Relaxed) + counters.honest_runs.load(Ordering::Relaxed)));
    c.insert("distinct_nontrivial".into(), json!(counters.caught.load(Ordering::Relaxed)));
    c.insert("rule".into(), json!("for each accepted schema (repository test schemas, S-verif, C19 family within 1 deviation plus every 6th document of the second layer (quick) / within 2 deviations (thorough)): the honest generic adapter must pass check_adapter_invariants; then every single fault {swap two adjacent contexts, non-null property for a None vertex, one neighbour for a None vertex, true coercion for a None vertex} x every (resolver, type, property | edge | coercion pair) inside the checker's documented scope (all properties incl. __typename; edges whose parameters all have defaults or are nullable; every declared implements pair) x position in {0, 4, 7} of the 9 probe contexts must make the checker panic. evaluations = checker runs; non-trivial = faults caught"));
    c.insert("schemas".into(), json!(counters.schemas.load(Ordering::Relaxed)));
    c.insert("faults_injected".into(), json!(counters.faults.load(Ordering::Relaxed)));
    c.insert("faults_caught".into(), json!(counters.caught.load(Ordering::Relaxed)));
    c.insert("edges_outside_documented_scope".into(), json!(counters.excluded_edges.load(Ordering::Relaxed)));
    c.insert("dropped_context_faults_reported_only".into(), json!({"injected": counters.drop_faults.load(Ordering::Relaxed), "caught": counters.drop_caught.load(Ordering::Relaxed)}));
    c.insert("family_documents_per_layer".into(), json!(layers.iter().map(|l| l.len()).collect::<Vec<_>>()));
    c.insert("samples".into(), json!(samples.lock().unwrap().items));
    c.insert("exhaustive".into(), json!(!capped.load(Ordering::Relaxed)));
    let _ = BTreeMap::<u8, u8>::new();
    ctx.finish("fault_enumeration", c, vec!["a fault is committed only for contexts without an active vertex (the only kind the checker feeds)".into(), "edges taking a non-nullable parameter without default are documented as unchecked and are excluded".into()])
}
