//! C26 — generated adapter stubs compile for every valid schema. Bounded-exhaustive family of
//! schemas whose type / property / edge / entrypoint / parameter names collide or need escaping after
//! the generator's name mangling, plus every built-in property and parameter type shape. Each
//! accepted schema goes through the real `generate_rust_stub`; all stubs are placed as sibling
//! modules of one scratch crate (outside /repo and /verif) depending on /repo/trustfall and are
//! type-checked, tests included, with `cargo check --tests`. rustc decides.

use std::{
    collections::{BTreeMap, BTreeSet},
    path::{Path, PathBuf},
    sync::Mutex,
};

use rayon::prelude::*;
use serde_json::json;

use crate::{
    common::{catch, cov, Ctx, Samples, Tier},
    props::c19,
};

pub const NAMES: [&str; 21] = ["foo", "Foo", "FOO", "fooBar", "foo_bar", "Foo_", "_foo", "type", "Type", "self", "Self", "box", "yield", "do", "abstract", "gen", "r", "_", "Foo2Bar", "foo2bar", "Foo2"];
pub const REDUCED: [&str; 7] = ["foo", "Foo", "fooBar", "foo_bar", "type", "self", "Self"];

#[derive(Clone, Debug)]
pub struct Shape {
    pub t1: String,
    pub t2: String,
    pub p1: String,
    pub p2: String,
    pub e1: String,
    pub entry1: String,
    pub entry2: String,
    pub param: String,
    pub p1_type: String,
    pub param_type: String,
    pub with_edges: bool,
    pub with_props: bool,
}

impl Default for Shape {
    fn default() -> Self {
        Shape { t1: "Base".into(), t2: "Leaf".into(), p1: "alpha".into(), p2: "beta".into(), e1: "link".into(), entry1: "Bases".into(), entry2: "OneLeaf".into(), param: "limit".into(), p1_type: "Int".into(), param_type: "Int".into(), with_edges: true, with_props: true }
    }
}

impl Shape {
    pub fn text(&self) -> String {
        let Shape { t1, t2, p1, p2, e1, entry1, entry2, param, p1_type, param_type, .. } = self;
        let dirs = trustfall_core::schema::Schema::ALL_DIRECTIVE_DEFINITIONS;
        let props1 = if self.with_props { format!("  {p1}: {p1_type}\n") } else { String::new() };
        let props2 = if self.with_props { format!("  {p1}: {p1_type}\n  {p2}: String\n") } else { String::new() };
        let edge = if self.with_edges { format!("  {e1}({param}: {param_type}): [{t2}!]\n") } else { String::new() };
        // a type needs at least one field
        let filler1 = if props1.is_empty() && edge.is_empty() { "  filler: Int\n" } else { "" };
        format!("schema {{\n  query: RootSchemaQuery\n}}\n{dirs}\ntype RootSchemaQuery {{\n  {entry1}: [{t1}!]!\n  {entry2}({param}: {param_type}): {t2}\n}}\ninterface {t1} {{\n{props1}{edge}{filler1}}}\ntype {t2} implements {t1} {{\n{props2}{edge}{filler1}}}\n")
    }
}

pub fn family(tier: Tier) -> Vec<(String, Shape)> {
    let mut out: Vec<(String, Shape)> = vec![("default".into(), Shape::default())];
    type Setter = fn(&mut Shape, &str);
    let positions: Vec<(&str, Setter)> = vec![
        ("t1", |s, n| s.t1 = n.into()),
        ("t2", |s, n| s.t2 = n.into()),
        ("p1", |s, n| s.p1 = n.into()),
        ("p2", |s, n| s.p2 = n.into()),
        ("e1", |s, n| s.e1 = n.into()),
        ("entry1", |s, n| s.entry1 = n.into()),
        ("entry2", |s, n| s.entry2 = n.into()),
        ("param", |s, n| s.param = n.into()),
    ];
    // every single position x every name
    for (pn, set) in &positions {
        for n in NAMES {
            let mut s = Shape::default();
            set(&mut s, n);
            out.push((format!("{pn}={n}"), s));
        }
    }
    // pairs of positions x pairs of names
    let pair_positions: Vec<(usize, usize)> = match tier {
        Tier::Quick => vec![(0, 1), (2, 3), (5, 6), (2, 4)],
        Tier::Thorough => (0..positions.len()).flat_map(|a| ((a + 1)..positions.len()).map(move |b| (a, b))).collect(),
    };
    let alphabet: &[&str] = match tier {
        Tier::Quick => &REDUCED,
        Tier::Thorough => &NAMES,
    };
    for (a, b) in pair_positions {
        for na in alphabet {
            for nb in alphabet {
                let mut s = Shape::default();
                (positions[a].1)(&mut s, na);
                (positions[b].1)(&mut s, nb);
                out.push((format!("{}={na},{}={nb}", positions[a].0, positions[b].0), s));
            }
        }
    }
    // property and parameter type shapes
    for base in ["Int", "String", "Float", "Boolean", "ID"] {
        for shape in ["{}", "{}!", "[{}]", "[{}!]", "[{}]!", "[{}!]!", "[[{}]]", "[[{}!]!]!"] {
            let ty = shape.replace("{}", base);
            let mut s = Shape::default();
            s.p1_type = ty.clone();
            out.push((format!("p1_type={ty}"), s));
            let mut s = Shape::default();
            s.param_type = ty.clone();
            out.push((format!("param_type={ty}"), s));
        }
    }
    for (we, wp) in [(false, true), (true, false), (false, false)] {
        let mut s = Shape::default();
        s.with_edges = we;
        s.with_props = wp;
        out.push((format!("with_edges={we},with_props={wp}"), s));
    }
    out
}

enum Gen {
    Written,
    Refused(String),
    Panicked(crate::common::PanicRec),
}

fn target_dir() -> String {
    format!("{}/.target/c26", crate::common::VERIF_ROOT)
}

fn scratch_root() -> PathBuf {
    let base = std::env::var("TMPDIR").unwrap_or_else(|_| "/tmp".into());
    PathBuf::from(format!("{base}/tfverif-c26-{}", std::process::id()))
}

/// `cargo check --tests` on the scratch crate; returns the module indexes mentioned by error diagnostics.
fn cargo_check(dir: &Path) -> Result<(bool, BTreeMap<usize, Vec<String>>, String), String> {
    let out = std::process::Command::new("cargo")
        .current_dir(dir)
        .args(["check", "--tests", "--workspace", "--offline", "--message-format=json", "-q", "--keep-going"])
        .env("CARGO_TARGET_DIR", target_dir())
        .env("CARGO_NET_OFFLINE", "true")
        .env_remove("RUSTFLAGS")
        .output()
        .map_err(|e| format!("cannot run cargo: {e}"))?;
    let mut by_mod: BTreeMap<usize, Vec<String>> = BTreeMap::new();
    let mut other = String::new();
    for line in String::from_utf8_lossy(&out.stdout).lines() {
        let Ok(v) = serde_json::from_str::<serde_json::Value>(line) else { continue };
        if v["reason"] != "compiler-message" || v["message"]["level"] != "error" {
            continue;
        }
        let msg = v["message"]["message"].as_str().unwrap_or("").to_string();
        let code = v["message"]["code"]["code"].as_str().unwrap_or("").to_string();
        let mut hit = false;
        for sp in v["message"]["spans"].as_array().cloned().unwrap_or_default() {
            let f = sp["file_name"].as_str().unwrap_or("");
            if let Some(rest) = f.split("src/s").nth(1) {
                if let Ok(k) = rest.chars().take_while(|c| c.is_ascii_digit()).collect::<String>().parse::<usize>() {
                    by_mod.entry(k).or_default().push(format!("{code} {msg}"));
                    hit = true;
                }
            }
        }
        if !hit && !msg.starts_with("aborting due to") && !msg.contains("could not compile") {
            other.push_str(&format!("{code} {msg}\n"));
        }
    }
    Ok((out.status.success(), by_mod, format!("{other}{}", String::from_utf8_lossy(&out.stderr).lines().filter(|l| l.contains("error")).take(5).collect::<Vec<_>>().join("\n"))))
}

pub fn run(ctx: &Ctx) -> ! {
    let fam = family(ctx.tier);
    let samples = Mutex::new(Samples::new(5));
    let root = scratch_root();
    let _ = std::fs::remove_dir_all(&root);
    std::fs::create_dir_all(root.join("src")).unwrap_or_else(|e| crate::common::machinery(&format!("cannot create scratch crate: {e}")));
    struct Cleanup(PathBuf);
    impl Drop for Cleanup {
        fn drop(&mut self) {
            let _ = std::fs::remove_dir_all(&self.0);
        }
    }
    let cleanup = Cleanup(root.clone());

    // generation (real generate_rust_stub), in parallel
    let results: Vec<(usize, &String, String, Gen, bool)> = fam
        .par_iter()
        .enumerate()
        .map(|(k, (label, shape))| {
            let text = shape.text();
            let accepted = matches!(c19::parse(&text), c19::Parsed::Ok(_));
            if !accepted {
                return (k, label, text, Gen::Refused("schema rejected by Schema::parse".into()), false);
            }
            let dir = root.join(format!("src/s{k:05}"));
            let r = catch(|| trustfall_stubgen::generate_rust_stub(&text, &dir));
            let g = match r {
                Ok(Ok(())) => Gen::Written,
                Ok(Err(e)) => Gen::Refused(format!("error: {e}")),
                Err(p) if p.message.starts_with("cannot generate adapter for a schema containing both") => Gen::Refused(p.message.lines().next().unwrap_or("").to_string()),
                Err(p) => Gen::Panicked(p),
            };
            if !matches!(g, Gen::Written) {
                let _ = std::fs::remove_dir_all(&dir);
            }
            (k, label, text, g, true)
        })
        .collect();

    let mut written: Vec<usize> = vec![];
    let mut refused: BTreeMap<String, u64> = BTreeMap::new();
    let mut schema_rejected = 0u64;
    for (k, label, text, g, accepted) in &results {
        match g {
            Gen::Written => written.push(*k),
            Gen::Refused(why) => {
                if *accepted {
                    *refused.entry(why.split(" '").next().unwrap_or(why).chars().take(70).collect()).or_insert(0) += 1;
                } else {
                    schema_rejected += 1;
                }
            }
            Gen::Panicked(p) => {
                let key = if p.message.contains("not valid Rust") || p.file.contains("prettyplease") || p.message.contains("is not a valid Ident") || p.message.contains("not a valid identifier") { format!("stubgen-emits-invalid-rust:{}", label.split('=').next().unwrap_or("")) } else { p.key() };
                ctx.fail(&key, &format!("generate_rust_stub panicked: {}", p.message.lines().next().unwrap_or("")), json!({"schema_text": text, "names": label, "observed": p.to_json(), "expected": "a stub that compiles, or the documented refusal"}));
            }
        }
    }

    // a scratch workspace of several crates (type-checked in parallel), every written stub a module of one of them
    const CRATES: usize = 14;
    let mut members = String::new();
    for c in 0..CRATES {
        std::fs::create_dir_all(root.join(format!("c{c:02}/src"))).ok();
        std::fs::write(root.join(format!("c{c:02}/Cargo.toml")), format!("[package]\nname = \"c26_stubs_{c:02}\"\npublish = false\nversion = \"0.1.0\"\nedition = \"2021\"\n\n[dependencies]\ntrustfall = {{ path = '/repo/trustfall' }}\n")).ok();
        members.push_str(&format!("\"c{c:02}\", "));
    }
    std::fs::write(root.join("Cargo.toml"), format!("[workspace]\nresolver = \"2\"\nmembers = [{members}]\n")).ok();
    std::fs::copy("/repo/Cargo.lock", root.join("Cargo.lock")).ok();
    // move each stub directory under its crate
    for (i, k) in written.iter().enumerate() {
        let c = i % CRATES;
        let from = root.join(format!("src/s{k:05}"));
        let to = root.join(format!("c{c:02}/src/s{k:05}"));
        if std::fs::rename(&from, &to).is_err() {
            crate::common::machinery("C26: cannot move a generated stub into the scratch workspace");
        }
    }
    let write_libs = |remaining: &[usize]| {
        for c in 0..CRATES {
            let mut lib = String::from("#![allow(warnings)]\n");
            for (i, k) in written.iter().enumerate() {
                if i % CRATES == c && remaining.contains(k) {
                    lib.push_str(&format!("pub mod s{k:05} {{ pub mod adapter; }}\n"));
                }
            }
            std::fs::write(root.join(format!("c{c:02}/src/lib.rs")), lib).ok();
        }
    };
    let mut compiled_ok: BTreeSet<usize> = BTreeSet::new();
    let mut failing: BTreeMap<usize, Vec<String>> = BTreeMap::new();
    let mut rounds = 0;
    let mut remaining = written.clone();
    // errors in one module can hide later passes' errors in others of the same crate: iterate until clean
    while !remaining.is_empty() && rounds < 12 {
        rounds += 1;
        write_libs(&remaining);
        match cargo_check(&root) {
            Err(e) => crate::common::machinery(&e),
            Ok((true, _, _)) => {
                compiled_ok.extend(remaining.iter().cloned());
                remaining.clear();
            }
            Ok((false, by_mod, other)) => {
                if by_mod.is_empty() {
                    crate::common::machinery(&format!("C26: cargo check failed without attributing an error to a stub: {other}"));
                }
                for (k, msgs) in by_mod {
                    failing.entry(k).or_default().extend(msgs);
                }
                remaining.retain(|k| !failing.contains_key(k));
            }
        }
    }
    for (k, msgs) in &failing {
        let (_, label, text, _, _) = &results[*k];
        let first = msgs.first().cloned().unwrap_or_default();
        let code = first.split_whitespace().next().unwrap_or("").to_string();
        let shape = &fam[*k].1;
        let snake = |v: &str| {
            // the generator's own snake-casing rule, restated: an underscore before an upper-case
            // letter that follows a lower-case letter or digit; everything lower-cased
            let mut out = String::new();
            let mut last = '_';
            for ch in v.chars() {
                if ch.is_uppercase() && last != '_' && !last.is_uppercase() {
                    out.push('_');
                }
                out.extend(ch.to_lowercase());
                last = ch;
            }
            out
        };
        let consecutive_caps = |v: &str| v.chars().zip(v.chars().skip(1)).any(|(a, b)| a.is_uppercase() && b.is_uppercase());
        // narrow predicates of the two recorded findings; anything else keeps a key naming the exact input
        let key = if code == "E0599" && first.contains("no method named `as_") && (consecutive_caps(&shape.t1) || consecutive_caps(&shape.t2)) {
            "stub-does-not-compile:as_-conversion-name-for-type-with-consecutive-capitals".to_string()
        } else if code == "E0428" && snake(&shape.entry1) == snake(&shape.entry2) && shape.entry1 != shape.entry2 {
            "stub-does-not-compile:entrypoints-collide-after-snake-casing".to_string()
        } else {
            format!("stub-does-not-compile:{code}:{label}")
        };
        ctx.fail(&key, &format!("the generated stub does not compile: {first}"), json!({"schema_text": text, "names": label, "observed": msgs.iter().take(6).collect::<Vec<_>>(), "expected": "cargo check --tests succeeds"}));
    }
    for k in compiled_ok.iter().take(3) {
        let (_, label, text, _, _) = &results[*k];
        samples.lock().unwrap().offer(|| json!({"names": label, "schema_text": text, "verdict": "stub generated and type-checked (lib + tests)"}));
    }
    drop(cleanup);

    let mut c = cov();
    c.insert("evaluations".into(), json!(fam.len()));
    c.insert("distinct_nontrivial".into(), json!(compiled_ok.len() + failing.len()));
    c.insert("rule".into(), json!("schema family: one interface + one implementing object + root with two entrypoints; every single position (both type names, two properties, edge, two entrypoints, parameter) x 21 names chosen to collide or need escaping after snake-casing / capitalising / keyword escaping; pairs of positions x pairs of names (quick: 4 position pairs x 7 names; thorough: all 28 position pairs x 21 names); every built-in scalar (incl. ID) x 8 nullability / list shapes as property type and as parameter type; schemas without edges / without properties. Each schema accepted by Schema::parse goes through generate_rust_stub; every written stub is type-checked (cargo check --tests) inside one scratch crate against /repo/trustfall. non-trivial = stubs that reached the compiler"));
    c.insert("schemas_in_family".into(), json!(fam.len()));
    c.insert("schemas_rejected_by_schema_validation".into(), json!(schema_rejected));
    c.insert("stubs_written".into(), json!(written.len()));
    c.insert("stubs_type_checked_ok".into(), json!(compiled_ok.len()));
    c.insert("stubs_failing_to_compile".into(), json!(failing.len()));
    c.insert("documented_refusals".into(), json!(refused));
    c.insert("cargo_check_rounds".into(), json!(rounds));
    c.insert("samples".into(), json!(samples.lock().unwrap().items));
    c.insert("exhaustive".into(), json!(remaining.is_empty()));
    ctx.finish(
        "exploration",
        c,
        vec![
            "'compiles' = rustc type-checks the library and test targets (cargo check --tests, edition 2021 as in the repository's own stubgen test); no linking".into(),
            "a panic with the generator's documented message 'cannot generate adapter for a schema containing both ...' is a refusal, not a violation".into(),
        ],
    )
}
