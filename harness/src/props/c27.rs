//! C27 — the Python bindings return the same results as the Rust engine. The check script builds
//! `pytrustfall` from /repo; this module exports cases (schema, datasets, query, arguments, expected
//! rows or "must raise"), runs them through the bindings over a Python adapter mirroring the Rust
//! GraphAdapter (py/c27_runner.py), and compares type-strictly.

use std::{
    collections::BTreeMap,
    path::PathBuf,
    sync::{Arc, Mutex},
};

use serde_json::{json, Value};
use trustfall_core::ir::FieldValue as FV;

use crate::{
    common::{cov, Ctx, Samples, Tier},
    corpus::{self, CorpusCfg, Universe},
    dataset::Dataset,
    engine::{self, Args, Exec, Row},
    graph_adapter::GraphAdapter,
    values::{self, i, list, s, u},
};

pub const PYLIB: &str = "/verif/.target/py/debug/libtrustfall.so";

fn enc(v: &FV) -> Value {
    match v {
        FV::Null => Value::Null,
        FV::Boolean(b) => json!({"b": b}),
        FV::Int64(x) => json!({"i": x.to_string()}),
        FV::Uint64(x) => json!({"i": x.to_string()}),
        FV::Float64(x) => json!({"f": format!("{:016x}", x.to_bits())}),
        FV::String(x) => json!({"s": x.as_ref()}),
        FV::List(xs) => Value::Array(xs.iter().map(enc).collect()),
        _ => json!({"unexpected": "enum"}),
    }
}

fn enc_rows(rows: &[Row]) -> Value {
    Value::Array(rows.iter().map(|r| Value::Object(r.iter().map(|(k, v)| (k.to_string(), enc(v))).collect())).collect())
}

fn world_json(uni: &Universe) -> Value {
    let sm = &uni.world.schema;
    let types: BTreeMap<String, Value> = sm
        .types
        .values()
        .map(|t| (t.name.clone(), json!({"implements": t.implements, "fields": t.fields.iter().map(|f| (f.name.clone(), json!({"base": f.ty.base(), "list": f.ty.is_list()}))).collect::<BTreeMap<_, _>>()})))
        .collect();
    json!({"types": types, "root": sm.root, "sverif_rules": true})
}

fn dataset_json(ds: &Dataset) -> Value {
    let vertices: Vec<Value> = ds.vertices.iter().map(|v| json!({"type": v.ty, "props": v.props.iter().map(|(k, x)| (k.clone(), enc(x))).collect::<BTreeMap<_, _>>()})).collect();
    let edges: Vec<Value> = ds.edges.iter().map(|(f, n, t)| json!([f, n, t])).collect();
    json!({"vertices": vertices, "edges": edges})
}

struct CaseOut {
    id: usize,
    query: String,
    dataset: String,
    arguments: Value,
    /// Some(rows) = must return exactly these rows; None = must raise
    expected_rows: Option<Value>,
    kind: &'static str,
}

pub fn run(ctx: &Ctx) -> ! {
    if !std::path::Path::new(PYLIB).exists() {
        crate::common::machinery(&format!("{PYLIB} is missing: ./check builds it with `cargo build -p pytrustfall` (CARGO_TARGET_DIR=/verif/.target/py)"));
    }
    let uni = Universe::sverif();
    let cases: Mutex<Vec<CaseOut>> = Mutex::new(vec![]);
    let push = |query: String, dataset: String, arguments: Value, expected_rows: Option<Value>, kind: &'static str| {
        let mut c = cases.lock().unwrap();
        let id = c.len();
        c.push(CaseOut { id, query, dataset, arguments, expected_rows, kind });
    };

    // (1) value sweep: a one-vertex dataset per value; the value flows out as a property...
    let mut datasets: BTreeMap<String, Arc<Dataset>> = uni.datasets.iter().map(|d| (d.name.clone(), d.clone())).collect();
    let out_values: Vec<(&str, FV)> = {
        let mut v: Vec<(&str, FV)> = vec![];
        for x in values::ints() {
            v.push(("n", x));
        }
        for x in [i(1 << 53), i((1 << 53) + 1), u((1u64 << 63) + 1)] {
            v.push(("n", x));
        }
        for x in values::floats().into_iter().chain([FV::Float64(1.0), FV::Float64(1e300), FV::Float64(-1e-300), FV::Float64(9007199254740993.0), FV::Float64(0.1)]) {
            v.push(("f", x));
        }
        for x in values::strings().into_iter().chain([s("\u{0}"), s("𝄞"), s("\"q\""), s("line\nbreak")]) {
            v.push(("s", x));
        }
        for x in values::bools() {
            v.push(("b", x));
        }
        for x in [list(vec![]), list(vec![i(1)]), list(vec![FV::Null, u(u64::MAX)]), list(vec![i(i64::MIN), u(u64::MAX), i(0)]), FV::Null] {
            v.push(("l", x));
        }
        for x in [list(vec![s("a"), FV::Null, s("é")]), list(vec![])] {
            v.push(("ls", x));
        }
        for x in [list(vec![list(vec![]), list(vec![i(1), i(2)])]), list(vec![list(vec![FV::Null]), list(vec![i(4)])]), list(vec![list(vec![i(7)]), list(vec![]), list(vec![i(8), u(u64::MAX)])]), list(vec![FV::Null, list(vec![])]), list(vec![list(vec![]), list(vec![])]), list(vec![])] {
            v.push(("ll", x));
        }
        v
    };
    for (k, (prop, val)) in out_values.iter().enumerate() {
        let mut d = Dataset::new(&format!("value{k}"));
        let mut props = vec![("id", i(k as i64)), ("n", FV::Null), ("s", FV::Null), ("l", FV::Null), ("ls", FV::Null), ("ll", FV::Null), ("f", FV::Null), ("b", FV::Null)];
        for p in props.iter_mut() {
            if p.0 == *prop {
                p.1 = val.clone();
            }
        }
        d.add("A", props);
        let d = Arc::new(d);
        datasets.insert(d.name.clone(), d.clone());
        let q = format!("{{ V {{ id @output {prop} @output(name: \"x\") }} }}");
        let iq = match engine::compile(&uni.schema, &q) {
            engine::Compiled::Ok(iq) => iq,
            _ => crate::common::machinery("C27 sweep query rejected"),
        };
        if let Exec::Rows(rows) = engine::execute(Arc::new(GraphAdapter::new(uni.world.clone(), d.clone())), iq, &Args::new()) {
            push(q, d.name.clone(), json!({}), Some(enc_rows(&rows)), "value-out");
        }
    }
    // ... and in as an argument (also through a fold and as an edge parameter default / explicit value)
    let arg_queries: Vec<(&str, &str, Vec<FV>)> = vec![
        ("{ V { id @output n @filter(op: \"=\", value: [\"$x\"]) } }", "extremes", values::ints().into_iter().chain([FV::Null]).collect()),
        ("{ V { id @output n @filter(op: \"<\", value: [\"$x\"]) } }", "extremes", values::ints()),
        ("{ V { id @output n @filter(op: \"one_of\", value: [\"$x\"]) } }", "extremes", vec![list(vec![]), list(vec![i(i64::MIN), u(u64::MAX)]), list(vec![FV::Null, i(-1)])]),
        ("{ V { id @output f @filter(op: \">=\", value: [\"$x\"]) } }", "diamond", vec![FV::Float64(-0.0), FV::Float64(1.5), FV::Float64(f64::MAX), FV::Float64(1.0)]),
        ("{ V { id @output s @filter(op: \"has_substring\", value: [\"$x\"]) } }", "extremes", vec![s(""), s("("), s("é"), s("\u{0}")]),
        ("{ V { id @output b @filter(op: \"=\", value: [\"$x\"]) } }", "diamond", vec![FV::Boolean(true), FV::Boolean(false), FV::Null]),
        ("{ V { id @output l @filter(op: \"contains\", value: [\"$x\"]) } }", "diamond", vec![i(1), u(1), FV::Null]),
        ("{ V { id @output next @fold @transform(op: \"count\") @filter(op: \">=\", value: [\"$x\"]) @output(name: \"c\") { id } } }", "counts0123", vec![i(-1), i(0), i(2), u(u64::MAX)]),
        ("{ V { id @output ll @filter(op: \"=\", value: [\"$x\"]) } }", "diamond", vec![list(vec![list(vec![]), list(vec![i(1), i(2)])]), list(vec![FV::Null, list(vec![FV::Null, u(1)])]), list(vec![list(vec![i(7)]), list(vec![]), list(vec![i(8)])]), list(vec![]), FV::Null]),
        ("{ V { id @output ll @filter(op: \"contains\", value: [\"$x\"]) } }", "diamond", vec![list(vec![]), list(vec![i(1), i(2)]), list(vec![FV::Null, u(1)]), FV::Null]),
        ("{ V { id @output l @filter(op: \"one_of\", value: [\"$x\"]) } }", "diamond", vec![list(vec![list(vec![]), list(vec![i(1), i(2)])]), list(vec![list(vec![FV::Null, u(1)]), list(vec![])])]),
    ];
    for (q, dsn, vals) in &arg_queries {
        let iq = match engine::compile(&uni.schema, q) {
            engine::Compiled::Ok(iq) => iq,
            _ => crate::common::machinery("C27 argument query rejected"),
        };
        let ds = datasets[*dsn].clone();
        for v in vals {
            let a: Args = [("x".to_string(), v.clone())].into_iter().collect();
            let expected = match engine::execute(Arc::new(GraphAdapter::new(uni.world.clone(), ds.clone())), iq.clone(), &a) {
                Exec::Rows(rows) => Some(enc_rows(&rows)),
                Exec::ArgError(_) => None,
                Exec::Panic { .. } => continue,
            };
            push(q.to_string(), dsn.to_string(), json!({"x": enc(v)}), expected, "argument-in");
        }
        // values with no FieldValue counterpart: must be rejected with an error
        for py in ["nan", "inf", "-inf", "dict", "bytes", "tuple", "set", "mixedlist", "mixedlist2", "nestedmixed", "object", "complex", "list_with_nan", "boolintlist", "-2**63-1"] {
            push(q.to_string(), dsn.to_string(), json!({"x": {"py": py}}), None, "argument-not-convertible");
        }
    }
    // a missing and a surplus argument must raise too
    push(arg_queries[0].0.to_string(), "extremes".into(), json!({}), None, "argument-missing");
    push(arg_queries[0].0.to_string(), "extremes".into(), json!({"x": enc(&i(1)), "y": enc(&i(2))}), None, "argument-surplus");

    // (2) the enumerated query space
    let mut cfg = CorpusCfg::new(ctx.tier.pick(1, 2));
    cfg.gen.naming_devs = false;
    cfg.max_arg_maps = 1;
    let mut uni_q = Universe::sverif();
    uni_q.datasets.retain(|d| matches!(d.name.as_str(), "diamond" | "fan3" | "extremes" | "chains"));
    let stride = ctx.tier.pick(1usize, 5usize);
    let counter = std::sync::atomic::AtomicUsize::new(0);
    let add_case = |case: &corpus::Case<'_>| {
        let n = counter.fetch_add(1, std::sync::atomic::Ordering::Relaxed);
        if n % stride != 0 {
            return;
        }
        if let Exec::Rows(rows) = engine::execute(Arc::new(GraphAdapter::new(uni.world.clone(), case.ds.clone())), case.cq.iq.clone(), case.args) {
            push(case.cq.text.clone(), case.ds.name.clone(), Value::Object(case.args.iter().map(|(k, v)| (k.clone(), enc(v))).collect()), Some(enc_rows(&rows)), "query-space");
        }
    };
    let s1 = corpus::drive(ctx, &uni_q, &cfg, &|_| {}, &add_case, &|_, _| {});
    let mut cfg2 = corpus::structures_cfg(&uni, 1, vec!["Pt", "Fct", "Fcf", "Fco", "C"], 3);
    cfg2.max_arg_maps = 1;
    let mut uni2 = Universe::sverif();
    uni2.datasets.retain(|d| matches!(d.name.as_str(), "diamond" | "counts0123"));
    let stride2 = ctx.tier.pick(7usize, 2usize);
    let counter2 = std::sync::atomic::AtomicUsize::new(0);
    let add_case2 = |case: &corpus::Case<'_>| {
        let n = counter2.fetch_add(1, std::sync::atomic::Ordering::Relaxed);
        if n % stride2 != 0 {
            return;
        }
        if let Exec::Rows(rows) = engine::execute(Arc::new(GraphAdapter::new(uni.world.clone(), case.ds.clone())), case.cq.iq.clone(), case.args) {
            push(case.cq.text.clone(), case.ds.name.clone(), Value::Object(case.args.iter().map(|(k, v)| (k.clone(), enc(v))).collect()), Some(enc_rows(&rows)), "query-space");
        }
    };
    let s2 = corpus::drive(ctx, &uni2, &cfg2, &|_| {}, &add_case2, &|_, _| {});

    // export, run Python, compare
    let mut cases = cases.into_inner().unwrap();
    cases.sort_by_key(|c| c.id);
    let base = std::env::var("TMPDIR").unwrap_or_else(|_| "/tmp".into());
    let work = PathBuf::from(format!("{base}/tfverif-c27-{}", std::process::id()));
    let _ = std::fs::remove_dir_all(&work);
    std::fs::create_dir_all(work.join("trustfall")).unwrap_or_else(|e| crate::common::machinery(&format!("cannot create C27 work dir: {e}")));
    for f in ["__init__.py", "_internals.py", "_internals.pyi", "adapter.py", "execution.py", "py.typed"] {
        std::fs::copy(format!("/repo/pytrustfall/trustfall/{f}"), work.join("trustfall").join(f)).unwrap_or_else(|e| crate::common::machinery(&format!("cannot copy {f}: {e}")));
    }
    std::fs::copy(PYLIB, work.join("trustfall/trustfall.so")).unwrap_or_else(|e| crate::common::machinery(&format!("cannot copy the extension module: {e}")));
    let export = json!({
        "schema_text": crate::dataset::SVERIF_TEXT,
        "world": world_json(&uni),
        "datasets": datasets.iter().map(|(k, d)| (k.clone(), dataset_json(d))).collect::<BTreeMap<_, _>>(),
        "cases": cases.iter().map(|c| json!({"id": c.id, "query": c.query, "dataset": c.dataset, "arguments": c.arguments})).collect::<Vec<_>>(),
    });
    std::fs::write(work.join("cases.json"), serde_json::to_string(&export).unwrap()).ok();
    let out = std::process::Command::new("python3").arg(format!("{}/py/c27_runner.py", crate::common::VERIF_ROOT)).arg(&work).arg(work.join("cases.json")).arg(work.join("results.json")).output();
    let out = out.unwrap_or_else(|e| crate::common::machinery(&format!("cannot run python3: {e}")));
    if !out.status.success() {
        let err = String::from_utf8_lossy(&out.stderr).chars().take(1500).collect::<String>();
        let _ = std::fs::remove_dir_all(&work);
        crate::common::machinery(&format!("the Python runner failed: {err}"));
    }
    let results: Value = serde_json::from_str(&std::fs::read_to_string(work.join("results.json")).unwrap_or_default()).unwrap_or_else(|e| crate::common::machinery(&format!("bad results.json: {e}")));
    let _ = std::fs::remove_dir_all(&work);
    let samples = Mutex::new(Samples::new(5));
    let mut by_kind: BTreeMap<&str, (u64, u64)> = BTreeMap::new();
    let mut raised = 0u64;
    for (c, r) in cases.iter().zip(results["results"].as_array().cloned().unwrap_or_default()) {
        if r["id"].as_u64() != Some(c.id as u64) {
            crate::common::machinery("C27: result ids out of order");
        }
        let e = by_kind.entry(c.kind).or_insert((0, 0));
        e.0 += 1;
        let rep = |expected: Value, observed: Value| json!({"schema_id": "S-verif", "query_text": c.query, "dataset_name": c.dataset, "arguments_encoded": c.arguments, "kind": c.kind, "expected": expected, "observed": observed});
        match (&c.expected_rows, r.get("rows"), r.get("error")) {
            (Some(want), Some(got), _) => {
                // rows as a sequence; values type-strict
                if want != got {
                    let same_multiset = {
                        let mut a: Vec<String> = want.as_array().map(|x| x.iter().map(|y| y.to_string()).collect()).unwrap_or_default();
                        let mut b: Vec<String> = got.as_array().map(|x| x.iter().map(|y| y.to_string()).collect()).unwrap_or_default();
                        a.sort();
                        b.sort();
                        a == b
                    };
                    ctx.fail(if same_multiset { "python-rows-order-differs" } else { "python-rows-differ" }, "rows through the Python bindings differ from the Rust engine's rows", rep(want.clone(), got.clone()));
                } else {
                    e.1 += 1;
                    if c.kind != "query-space" || c.id % 97 == 0 {
                        samples.lock().unwrap().offer(|| json!({"kind": c.kind, "query_text": c.query, "arguments_encoded": c.arguments, "rows": got}));
                    }
                }
            }
            (Some(want), None, Some(err)) => ctx.fail(&format!("python-raised:{}", err.as_str().unwrap_or("")), "the Python bindings raised where the Rust engine returns rows", rep(want.clone(), r.clone())),
            (None, Some(got), _) => ctx.fail(&format!("python-accepted-bad-argument:{}", c.arguments["x"]["py"].as_str().unwrap_or(c.kind)), "the Python bindings accepted an argument map that must be rejected", rep(json!("an exception"), got.clone())),
            (None, None, Some(_)) => {
                raised += 1;
                e.1 += 1;
            }
            _ => crate::common::machinery("C27: malformed result entry"),
        }
    }
    let mut c = cov();
    c.insert("evaluations".into(), json!(cases.len()));
    c.insert("distinct_nontrivial".into(), json!(by_kind.values().map(|v| v.1).sum::<u64>()));
    c.insert("rule".into(), json!("cases exported by the Rust harness with the Rust engine's rows as expectation: (1) every value of the boundary alphabet flowing out as a property (ints across the i64/u64 boundary and 2^53, -0.0 and extreme floats, NUL / non-BMP / quoted strings, booleans, nested lists with nulls) and in as an argument (same alphabets per operator), plus Python values with no counterpart (nan, inf, 2**64-range ints, dict, bytes, tuple, set, mixed lists, object, complex), missing and surplus arguments, which must raise; (2) the enumerated query space (k<=1 quick / k<=2 strided thorough, plus tag structures) over 4 datasets. Python side: py/c27_runner.py over the real bindings built from /repo. Rows compared as sequences, values type-strictly (bool vs int vs float, floats by bit pattern). non-trivial = cases that agreed"));
    c.insert("cases_by_kind_total_and_agreeing".into(), json!(by_kind.iter().map(|(k, v)| (k.to_string(), json!([v.0, v.1]))).collect::<BTreeMap<_, _>>()));
    c.insert("cases_that_raised_as_required".into(), json!(raised));
    c.insert("python".into(), results["python"].clone());
    c.insert("corpus".into(), s1.to_json());
    c.insert("corpus_tag_structures".into(), s2.to_json());
    c.insert("samples".into(), json!(samples.lock().unwrap().items));
    c.insert("exhaustive".into(), json!(!s1.capped && !s2.capped));
    let _ = Tier::Quick;
    ctx.finish("exploration", c, vec!["the Python adapter mirrors the Rust GraphAdapter (same dataset JSON, same V / nb edge rules)".into(), "the extension module is rebuilt from /repo by ./check before this runs".into()])
}
