use crate::common::Ctx;

pub mod c01;
pub mod c02;
pub mod c06;
pub mod c07;
pub mod c07_wiring;
pub mod c08;
pub mod c17;

pub const REGISTRY: &[(&str, fn(&Ctx) -> !)] = &[("C01", c01::run), ("C02", c02::run), ("C06", c06::run), ("C07", c07::run), ("C08", c08::run), ("C17", c17::run)];
