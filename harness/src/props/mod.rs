use crate::common::Ctx;

pub mod c08;

pub const REGISTRY: &[(&str, fn(&Ctx) -> !)] = &[("C08", c08::run)];
