use crate::common::Ctx;

pub mod c01;
pub mod c02;
pub mod c03;
pub mod c04;
pub mod c05;
pub mod c06;
pub mod c07;
pub mod c07_wiring;
pub mod c08;
pub mod c09;
pub mod c10;
pub mod c11;
pub mod c12;
pub mod c13;
pub mod c15;
pub mod c16;
pub mod c17;
pub mod c18;
pub mod c19;
pub mod c20;
pub mod c21;
pub mod c22;
pub mod c23;
pub mod c24;
pub mod c25;

pub const REGISTRY: &[(&str, fn(&Ctx) -> !)] = &[("C01", c01::run), ("C02", c02::run), ("C03", c03::run), ("C04", c04::run), ("C05", c05::run), ("C06", c06::run), ("C07", c07::run), ("C08", c08::run), ("C09", c09::run), ("C10", c10::run), ("C17", c17::run), ("C18", c18::run), ("C19", c19::run), ("C20", c20::run), ("C11", c11::run), ("C12", c12::run), ("C13", c13::run), ("C15", c15::run), ("C16", c16::run), ("C21", c21::run), ("C22", c22::run), ("C23", c23::run), ("C24", c24::run), ("C25", c25::run)];
