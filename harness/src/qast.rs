//! Query AST shared by the generator, the printer and the reference evaluator. The oracle never
//! sees the frontend's IR: it reads this AST (or re-parses query text with the GraphQL parser).

use std::collections::BTreeMap;

use async_graphql_parser::types as gt;
use async_graphql_value::Value as GV;
use trustfall_core::ir::FieldValue as FV;

use crate::values;

#[derive(Clone, Debug, PartialEq, Eq, Hash, PartialOrd, Ord)]
pub enum ArgRef {
    Var(String),
    Tag(String),
}

#[derive(Clone, Debug, PartialEq, Eq, Hash, PartialOrd, Ord)]
pub enum Dir {
    Output(Option<String>),
    Tag(Option<String>),
    Filter { op: String, arg: Option<ArgRef> },
}

#[derive(Clone, Debug, PartialEq, Eq, Hash)]
pub struct PropUse {
    pub name: String,
    pub alias: Option<String>,
    pub dirs: Vec<Dir>,
}

#[derive(Clone, Debug, PartialEq)]
pub struct EdgeUse {
    pub name: String,
    pub alias: Option<String>,
    pub params: Vec<(String, FV)>,
    pub optional: bool,
    pub recurse: Option<u32>,
    pub fold: bool,
    /// directives after `@transform(op: "count")` (only with `fold`)
    pub count: Option<Vec<Dir>>,
    pub node: Node,
}

#[derive(Clone, Debug, PartialEq)]
pub enum Item {
    Prop(PropUse),
    Edge(EdgeUse),
}

#[derive(Clone, Debug, PartialEq, Default)]
pub struct Node {
    pub coerce: Option<String>,
    pub items: Vec<Item>,
}

#[derive(Clone, Debug, PartialEq)]
pub struct Query {
    pub root: String,
    pub root_params: Vec<(String, FV)>,
    pub node: Node,
}

impl EdgeUse {
    pub fn new(name: &str) -> EdgeUse {
        EdgeUse { name: name.into(), alias: None, params: vec![], optional: false, recurse: None, fold: false, count: None, node: Node::default() }
    }
}

impl PropUse {
    pub fn new(name: &str) -> PropUse {
        PropUse { name: name.into(), alias: None, dirs: vec![] }
    }
    pub fn output(name: &str) -> PropUse {
        PropUse { name: name.into(), alias: None, dirs: vec![Dir::Output(None)] }
    }
}

// ---------------------------------------------------------------------------------------------
// Printer

pub fn lit(v: &FV) -> String {
    match v {
        FV::Null => "null".into(),
        FV::Int64(x) => x.to_string(),
        FV::Uint64(x) => x.to_string(),
        FV::Float64(x) => format!("{x:?}"),
        FV::String(s) => format!("{:?}", s.as_ref()),
        FV::Boolean(b) => b.to_string(),
        FV::Enum(e) => e.to_string(),
        FV::List(xs) => format!("[{}]", xs.iter().map(lit).collect::<Vec<_>>().join(", ")),
        _ => "null".into(),
    }
}

fn params_text(ps: &[(String, FV)]) -> String {
    if ps.is_empty() {
        String::new()
    } else {
        format!("({})", ps.iter().map(|(k, v)| format!("{k}: {}", lit(v))).collect::<Vec<_>>().join(", "))
    }
}

fn dirs_text(ds: &[Dir]) -> String {
    let mut s = String::new();
    for d in ds {
        match d {
            Dir::Output(None) => s.push_str(" @output"),
            Dir::Output(Some(n)) => s.push_str(&format!(" @output(name: \"{n}\")")),
            Dir::Tag(None) => s.push_str(" @tag"),
            Dir::Tag(Some(n)) => s.push_str(&format!(" @tag(name: \"{n}\")")),
            Dir::Filter { op, arg: None } => s.push_str(&format!(" @filter(op: \"{op}\")")),
            Dir::Filter { op, arg: Some(ArgRef::Var(v)) } => s.push_str(&format!(" @filter(op: \"{op}\", value: [\"${v}\"])")),
            Dir::Filter { op, arg: Some(ArgRef::Tag(t)) } => s.push_str(&format!(" @filter(op: \"{op}\", value: [\"%{t}\"])")),
        }
    }
    s
}

fn node_text(n: &Node, indent: usize, out: &mut String) {
    let pad = "  ".repeat(indent);
    let (inner_indent, close) = if let Some(c) = &n.coerce {
        out.push_str(&format!("{pad}... on {c} {{\n"));
        (indent + 1, true)
    } else {
        (indent, false)
    };
    let pad2 = "  ".repeat(inner_indent);
    for it in &n.items {
        match it {
            Item::Prop(p) => {
                let alias = p.alias.as_ref().map(|a| format!("{a}: ")).unwrap_or_default();
                out.push_str(&format!("{pad2}{alias}{}{}\n", p.name, dirs_text(&p.dirs)));
            }
            Item::Edge(e) => {
                let alias = e.alias.as_ref().map(|a| format!("{a}: ")).unwrap_or_default();
                let mut d = String::new();
                if e.optional {
                    d.push_str(" @optional");
                }
                if let Some(k) = e.recurse {
                    d.push_str(&format!(" @recurse(depth: {k})"));
                }
                if e.fold {
                    d.push_str(" @fold");
                }
                if let Some(c) = &e.count {
                    d.push_str(" @transform(op: \"count\")");
                    d.push_str(&dirs_text(c));
                }
                out.push_str(&format!("{pad2}{alias}{}{}{d} {{\n", e.name, params_text(&e.params)));
                node_text(&e.node, inner_indent + 1, out);
                out.push_str(&format!("{pad2}}}\n"));
            }
        }
    }
    if close {
        out.push_str(&format!("{pad}}}\n"));
    }
}

impl Query {
    pub fn text(&self) -> String {
        let mut out = String::from("{\n");
        out.push_str(&format!("  {}{} {{\n", self.root, params_text(&self.root_params)));
        node_text(&self.node, 2, &mut out);
        out.push_str("  }\n}\n");
        out
    }
}

// ---------------------------------------------------------------------------------------------
// Text -> AST (replay files and hand-written corpora). Uses the GraphQL parser only.

fn gv_to_fv(v: &GV) -> Result<FV, String> {
    Ok(match v {
        GV::Null => FV::Null,
        GV::Number(n) => {
            if let Some(i) = n.as_i64() {
                FV::Int64(i)
            } else if let Some(u) = n.as_u64() {
                FV::Uint64(u)
            } else {
                FV::Float64(n.as_f64().unwrap())
            }
        }
        GV::String(s) => values::s(s),
        GV::Boolean(b) => FV::Boolean(*b),
        GV::List(xs) => values::list(xs.iter().map(gv_to_fv).collect::<Result<Vec<_>, _>>()?),
        other => return Err(format!("unsupported literal {other}")),
    })
}

fn dir_arg<'a>(d: &'a gt::Directive, name: &str) -> Option<&'a GV> {
    d.arguments.iter().find(|(k, _)| k.node.as_str() == name).map(|(_, v)| &v.node)
}

fn parse_value_dir(d: &gt::Directive) -> Result<Dir, String> {
    match d.name.node.as_str() {
        "output" => Ok(Dir::Output(match dir_arg(d, "name") {
            Some(GV::String(s)) => Some(s.clone()),
            None => None,
            _ => return Err("bad @output".into()),
        })),
        "tag" => Ok(Dir::Tag(match dir_arg(d, "name") {
            Some(GV::String(s)) => Some(s.clone()),
            None => None,
            _ => return Err("bad @tag".into()),
        })),
        "filter" => {
            let op = match dir_arg(d, "op") {
                Some(GV::String(s)) => s.clone(),
                _ => return Err("bad @filter op".into()),
            };
            let arg = match dir_arg(d, "value") {
                None => None,
                Some(GV::List(xs)) if xs.len() == 1 => match &xs[0] {
                    GV::String(s) if s.starts_with('$') => Some(ArgRef::Var(s[1..].to_string())),
                    GV::String(s) if s.starts_with('%') => Some(ArgRef::Tag(s[1..].to_string())),
                    _ => return Err("bad @filter value".into()),
                },
                _ => return Err("bad @filter value".into()),
            };
            Ok(Dir::Filter { op, arg })
        }
        other => Err(format!("unsupported directive @{other} here")),
    }
}

fn parse_selection_set(ss: &gt::SelectionSet, known_edges: &dyn Fn(&str) -> Option<bool>) -> Result<Node, String> {
    let mut node = Node::default();
    let mut items = &ss.items;
    if items.len() == 1 {
        if let gt::Selection::InlineFragment(f) = &items[0].node {
            node.coerce = Some(f.node.type_condition.as_ref().ok_or("fragment without type")?.node.on.node.to_string());
            items = &f.node.selection_set.node.items;
        }
    }
    for sel in items {
        let f = match &sel.node {
            gt::Selection::Field(f) => &f.node,
            _ => return Err("unsupported selection".into()),
        };
        let name = f.name.node.to_string();
        let alias = f.alias.as_ref().map(|a| a.node.to_string());
        let is_edge = !f.selection_set.node.items.is_empty() || known_edges(&name) == Some(true);
        if !is_edge {
            let dirs = f.directives.iter().map(|d| parse_value_dir(&d.node)).collect::<Result<Vec<_>, _>>()?;
            node.items.push(Item::Prop(PropUse { name, alias, dirs }));
        } else {
            let mut e = EdgeUse::new(&name);
            e.alias = alias;
            for (k, v) in &f.arguments {
                e.params.push((k.node.to_string(), gv_to_fv(&v.node)?));
            }
            for d in &f.directives {
                let d = &d.node;
                match d.name.node.as_str() {
                    "optional" if e.count.is_none() => e.optional = true,
                    "fold" if e.count.is_none() => e.fold = true,
                    "recurse" if e.count.is_none() => match dir_arg(d, "depth") {
                        Some(GV::Number(n)) => e.recurse = Some(n.as_u64().ok_or("bad depth")? as u32),
                        _ => return Err("bad @recurse".into()),
                    },
                    "transform" if e.count.is_none() => match dir_arg(d, "op") {
                        Some(GV::String(s)) if s == "count" => e.count = Some(vec![]),
                        _ => return Err("unsupported transform".into()),
                    },
                    _ if e.count.is_some() => e.count.as_mut().unwrap().push(parse_value_dir(d)?),
                    other => return Err(format!("unsupported edge directive @{other}")),
                }
            }
            e.node = parse_selection_set(&f.selection_set.node, known_edges)?;
            node.items.push(Item::Edge(e));
        }
    }
    Ok(node)
}

pub fn parse_query_text(text: &str) -> Result<Query, String> {
    let doc = async_graphql_parser::parse_query(text).map_err(|e| e.to_string())?;
    let op = match &doc.operations {
        gt::DocumentOperations::Single(op) => &op.node,
        gt::DocumentOperations::Multiple(m) if m.len() == 1 => &m.values().next().unwrap().node,
        _ => return Err("multiple operations".into()),
    };
    if op.selection_set.node.items.len() != 1 {
        return Err("expected one root field".into());
    }
    let f = match &op.selection_set.node.items[0].node {
        gt::Selection::Field(f) => &f.node,
        _ => return Err("unsupported root".into()),
    };
    let mut root_params = vec![];
    for (k, v) in &f.arguments {
        root_params.push((k.node.to_string(), gv_to_fv(&v.node)?));
    }
    let node = parse_selection_set(&f.selection_set.node, &|_| None)?;
    Ok(Query { root: f.name.node.to_string(), root_params, node })
}

pub fn params_to_map(ps: &[(String, FV)]) -> BTreeMap<String, FV> {
    ps.iter().cloned().collect()
}

// ---------------------------------------------------------------------------------------------
// Feature summary (used for coverage accounting and corpus selection)

#[derive(Default, Debug, Clone, PartialEq, Eq, PartialOrd, Ord)]
pub struct Features {
    pub edges: u32,
    pub optional: u32,
    pub recurse: u32,
    pub fold: u32,
    pub nested_fold: u32,
    pub count_output: u32,
    pub count_filter: u32,
    pub count_tag: u32,
    pub coercion: u32,
    pub filters_var: u32,
    pub filters_tag: u32,
    pub outputs: u32,
    pub max_depth: u32,
}

impl Features {
    /// no count-related directive at all (used to keep the undecorated structures in focused corpora)
    pub fn layerless(&self) -> bool {
        self.count_output + self.count_filter + self.count_tag + self.filters_var + self.filters_tag == 0
    }
}

pub fn features(q: &Query) -> Features {
    fn walk(n: &Node, depth: u32, fold_depth: u32, f: &mut Features) {
        f.max_depth = f.max_depth.max(depth);
        if n.coerce.is_some() {
            f.coercion += 1;
        }
        let count_dirs = |ds: &[Dir], f: &mut Features| {
            for d in ds {
                match d {
                    Dir::Output(_) => f.outputs += 1,
                    Dir::Filter { arg: Some(ArgRef::Tag(_)), .. } => f.filters_tag += 1,
                    Dir::Filter { .. } => f.filters_var += 1,
                    Dir::Tag(_) => {}
                }
            }
        };
        for it in &n.items {
            match it {
                Item::Prop(p) => count_dirs(&p.dirs, f),
                Item::Edge(e) => {
                    f.edges += 1;
                    f.optional += e.optional as u32;
                    f.recurse += e.recurse.is_some() as u32;
                    if e.fold {
                        f.fold += 1;
                        if fold_depth > 0 {
                            f.nested_fold += 1;
                        }
                    }
                    if let Some(c) = &e.count {
                        for d in c {
                            match d {
                                Dir::Output(_) => f.count_output += 1,
                                Dir::Filter { .. } => f.count_filter += 1,
                                Dir::Tag(_) => f.count_tag += 1,
                            }
                        }
                    }
                    walk(&e.node, depth + 1, fold_depth + e.fold as u32, f);
                }
            }
        }
    }
    let mut f = Features::default();
    walk(&q.node, 0, 0, &mut f);
    f
}
