//! Program-space enumeration of queries over S-verif: every query reachable from the skeleton
//! `{ V { id @output } }` by at most k deviations from a finite menu (DESIGN.md §3.3), in
//! simplest-first order, deduplicated by printed text.

use std::collections::{BTreeMap, HashSet};

use trustfall_core::ir::FieldValue as FV;

use crate::{
    qast::{ArgRef, Dir, EdgeUse, Item, Node, PropUse, Query},
    schema_model::{SchemaModel, TyRef},
    values,
};

#[derive(Clone, Debug)]
pub struct GenCfg {
    pub max_vertices: usize,
    pub max_depth: usize,
    pub recurse_depths: Vec<u32>,
    /// widen the filter operator menu (C04 uses all hint-relevant operators)
    pub wide_filters: bool,
    pub naming_devs: bool,
    /// restrict the deviation kinds (labels: E C Po Poi Pf Px Pt Pv Ae Fco Fcf Fct); None = all
    pub allow: Option<Vec<&'static str>>,
    /// restrict edge names / contents used by E (None = all)
    pub e_names: Option<Vec<&'static str>>,
    pub e_contents: Vec<u8>,
    /// restrict the tag menu to its first n entries (0 = all)
    pub tag_menu_cap: usize,
    /// menus = every operator x every property (x every tagged property): the frontend's own
    /// operand-type rules decide which are accepted (C09 / C10 use this)
    pub full_menus: bool,
    /// also generate deviations that make a query *invalid* (name collisions between outputs / tags,
    /// ill-typed filters, undefined tags, unknown properties): only C10 (frontend never panics) wants them
    pub invalid_devs: bool,
}

impl GenCfg {
    pub fn allows(&self, kind: &str) -> bool {
        self.allow.as_ref().map(|a| a.iter().any(|k| *k == kind)).unwrap_or(true)
    }
}

impl Default for GenCfg {
    fn default() -> Self {
        GenCfg { max_vertices: 4, max_depth: 3, recurse_depths: vec![1, 2, 3], wide_filters: false, naming_devs: true, allow: None, e_names: None, e_contents: vec![0, 1], tag_menu_cap: 0, full_menus: false, invalid_devs: false }
    }
}

pub fn skeleton() -> Query {
    Query { root: "V".into(), root_params: vec![], node: Node { coerce: None, items: vec![Item::Prop(PropUse::output("id"))] } }
}

pub fn skeletons() -> Vec<Query> {
    let mut v = vec![skeleton()];
    let mut q = skeleton();
    q.root_params = vec![("min".into(), values::i(1))];
    v.push(q);
    let mut q = skeleton();
    q.root_params = vec![("min".into(), FV::Null), ("only".into(), values::s("a"))];
    v.push(q);
    let mut q = skeleton();
    q.root = "One".into();
    v.push(q);
    let mut q = skeleton();
    q.root = "FirstA".into();
    v.push(q);
    let mut q = skeleton();
    q.root = "Chains".into();
    q.node.items = vec![Item::Prop(PropUse::output("s"))];
    v.push(q);
    v
}

/// One node of the query tree with what the generator needs to know about it.
#[derive(Clone, Debug)]
pub struct NodeInfo {
    pub path: Vec<usize>, // indexes into `items` (edges only) from the root node
    pub ty: String,       // static type after coercion
    pub uncoerced_ty: String,
    pub depth: usize,
    pub fold_depth: usize,
    pub under_recurse: bool,
}

pub fn path_name(p: &[usize]) -> String {
    if p.is_empty() {
        "r".into()
    } else {
        p.iter().map(|i| i.to_string()).collect::<Vec<_>>().join("")
    }
}

fn nth_edge(n: &Node, k: usize) -> &EdgeUse {
    n.items.iter().filter_map(|it| if let Item::Edge(e) = it { Some(e) } else { None }).nth(k).expect("path does not name an edge")
}

fn nth_edge_mut(n: &mut Node, k: usize) -> &mut EdgeUse {
    n.items.iter_mut().filter_map(|it| if let Item::Edge(e) = it { Some(e) } else { None }).nth(k).expect("path does not name an edge")
}

/// Paths name edges by their ordinal among the edge children of each node (stable under
/// insertion of property items).
pub fn node_at<'a>(q: &'a Query, path: &[usize]) -> &'a Node {
    let mut n = &q.node;
    for i in path {
        n = &nth_edge(n, *i).node;
    }
    n
}

pub fn node_at_mut<'a>(q: &'a mut Query, path: &[usize]) -> &'a mut Node {
    let mut n = &mut q.node;
    for i in path {
        n = &mut nth_edge_mut(n, *i).node;
    }
    n
}

pub fn edge_at_mut<'a>(q: &'a mut Query, path: &[usize]) -> &'a mut EdgeUse {
    let (last, init) = path.split_last().unwrap();
    nth_edge_mut(node_at_mut(q, init), *last)
}

pub fn edge_at<'a>(q: &'a Query, path: &[usize]) -> &'a EdgeUse {
    let (last, init) = path.split_last().unwrap();
    nth_edge(node_at(q, init), *last)
}

/// All nodes in DFS pre-order (the order in which the engine resolves vertices).
pub fn nodes(schema: &SchemaModel, q: &Query) -> Vec<NodeInfo> {
    fn walk(schema: &SchemaModel, n: &Node, unc: &str, path: &mut Vec<usize>, depth: usize, fold_depth: usize, under_recurse: bool, out: &mut Vec<NodeInfo>) {
        let ty = n.coerce.clone().unwrap_or_else(|| unc.to_string());
        out.push(NodeInfo { path: path.clone(), ty: ty.clone(), uncoerced_ty: unc.to_string(), depth, fold_depth, under_recurse });
        let mut i = 0usize;
        for it in n.items.iter() {
            if let Item::Edge(e) = it {
                i += 1;
                if let Some(f) = schema.field(&ty, &e.name) {
                    path.push(i - 1);
                    walk(schema, &e.node, f.ty.base(), path, depth + 1, fold_depth + e.fold as usize, under_recurse || e.recurse.is_some(), out);
                    path.pop();
                }
            }
        }
    }
    let mut out = vec![];
    if let Some(f) = schema.root_type().field(&q.root) {
        walk(schema, &q.node, f.ty.base(), &mut vec![], 0, 0, false, &mut out);
    }
    out
}

pub fn has_dir(n: &Node, prop: &str, pred: impl Fn(&Dir) -> bool) -> bool {
    n.items.iter().any(|it| matches!(it, Item::Prop(p) if p.name == prop && p.dirs.iter().any(&pred)))
}

pub fn add_prop_dir(n: &mut Node, prop: &str, d: Dir) {
    for it in n.items.iter_mut() {
        if let Item::Prop(p) = it {
            if p.name == prop && p.alias.is_none() {
                p.dirs.push(d);
                return;
            }
        }
    }
    // properties go before edges so that tags are textually before folds that import them
    let pos = n.items.iter().position(|it| matches!(it, Item::Edge(_))).unwrap_or(n.items.len());
    n.items.insert(pos, Item::Prop(PropUse { name: prop.into(), alias: None, dirs: vec![d] }));
}

/// Edge names usable from a static type, with explicit-parameter variants.
fn edge_variants(schema: &SchemaModel, ty: &str) -> Vec<(String, Vec<(String, FV)>)> {
    let mut out = vec![];
    if let Some(t) = schema.types.get(ty) {
        for f in &t.fields {
            if schema.is_edge(f) {
                if f.name == "req" {
                    // required parameter: only the explicit form is a valid query
                    out.push((f.name.clone(), vec![("k".into(), values::i(1))]));
                    // explicit null for a nullable parameter that has a non-null declared default
                    out.push((f.name.clone(), vec![("k".into(), values::i(0)), ("lim".into(), FV::Null)]));
                    continue;
                }
                out.push((f.name.clone(), vec![]));
                if f.name == "opt" {
                    // (the bare form above has an all-null parameter map)
                    out.push((f.name.clone(), vec![("x".into(), values::i(1)), ("y".into(), FV::Null)]));
                }
                if f.name == "nb" {
                    out.push((f.name.clone(), vec![("tag".into(), FV::Null)]));
                    out.push((f.name.clone(), vec![("min".into(), values::i(2))]));
                    out.push((f.name.clone(), vec![("tag".into(), values::s("a")), ("min".into(), values::i(1))]));
                }
            }
        }
    }
    out
}

pub fn prop_type(schema: &SchemaModel, ty: &str, prop: &str) -> Option<TyRef> {
    if prop == "__typename" {
        return Some(TyRef::Named("String".into(), false));
    }
    schema.field(ty, prop).filter(|f| !schema.is_edge(f)).map(|f| f.ty.clone())
}

/// (property, operator) menu for variable filters.
pub const ALL_PROPS: [&str; 8] = ["id", "n", "s", "l", "ls", "ll", "f", "b"];
pub const ALL_OPS: [&str; 20] = [
    "=", "!=", "<", "<=", ">", ">=", "one_of", "not_one_of", "contains", "not_contains", "has_prefix", "not_has_prefix", "has_suffix", "not_has_suffix", "has_substring", "not_has_substring", "regex", "not_regex", "is_null",
    "is_not_null",
];

fn filter_menu(cfg: &GenCfg) -> Vec<(&'static str, &'static str)> {
    if cfg.full_menus {
        return ALL_PROPS.iter().flat_map(|p| ALL_OPS.iter().map(move |o| (*p, *o))).collect();
    }
    // every operator at least once (each has its own arm in apply_filter)
    let mut m = vec![
        ("n", "="),
        ("n", "<"),
        ("n", ">="),
        ("n", "one_of"),
        ("n", "is_null"),
        ("n", "is_not_null"),
        ("s", "has_substring"),
        ("s", "regex"),
        ("l", "contains"),
        ("s", "!="),
        ("n", "<="),
        ("n", ">"),
        ("n", "not_one_of"),
        ("l", "not_contains"),
        ("s", "has_prefix"),
        ("s", "not_has_prefix"),
        ("s", "has_suffix"),
        ("s", "not_has_suffix"),
        ("s", "not_has_substring"),
        ("s", "not_regex"),
    ];
    if cfg.wide_filters {
        m.extend([("n", "!="), ("id", "="), ("id", ">"), ("s", "="), ("s", "one_of"), ("s", "<"), ("s", "is_null")]);
    }
    m
}

/// (tagged property, filtered property, operator) menu for tag filters.
fn tag_menu(cfg: &GenCfg) -> Vec<(&'static str, &'static str, &'static str)> {
    if cfg.full_menus {
        return ALL_PROPS.iter().flat_map(|t| ALL_PROPS.iter().flat_map(move |f| ALL_OPS.iter().take(18).map(move |o| (*t, *f, *o)))).collect();
    }
    // every binary operator at least once with a tag operand (each has its own arm in apply_filter)
    let mut m = vec![
        ("n", "n", "="),
        ("n", "n", "<"),
        ("n", "n", ">="),
        ("n", "n", "!="),
        ("id", "n", ">"),
        ("l", "n", "one_of"),
        ("n", "l", "contains"),
        ("s", "s", "="),
        ("s", "s", "has_substring"),
        ("n", "n", "<="),
        ("l", "n", "not_one_of"),
        ("n", "l", "not_contains"),
        ("s", "s", "regex"),
        ("s", "s", "not_regex"),
        ("s", "s", "has_prefix"),
        ("s", "s", "not_has_prefix"),
        ("s", "s", "has_suffix"),
        ("s", "s", "not_has_suffix"),
        ("s", "s", "not_has_substring"),
    ];
    if cfg.wide_filters {
        m.extend([("n", "n", ">"), ("id", "id", "<"), ("s", "s", "!="), ("s", "s", ">"), ("n", "id", "=")]);
    }
    m
}

pub fn count_vertices(q: &Query) -> usize {
    fn c(n: &Node) -> usize {
        1 + n.items.iter().map(|it| if let Item::Edge(e) = it { c(&e.node) } else { 0 }).sum::<usize>()
    }
    c(&q.node)
}

/// All single-deviation successors of `q`.
pub fn deviations(schema: &SchemaModel, q: &Query, cfg: &GenCfg) -> Vec<Query> {
    let mut out = vec![];
    let infos = nodes(schema, q);
    let nv = count_vertices(q);

    for (idx, ni) in infos.iter().enumerate() {
        let pn = path_name(&ni.path);
        let node = node_at(q, &ni.path);

        // E: add an edge (name x parameters x modifier x content)
        if cfg.allows("E") && nv < cfg.max_vertices && ni.depth < cfg.max_depth {
            for (ename, params) in edge_variants(schema, &ni.ty) {
                if let Some(names) = &cfg.e_names {
                    if !names.iter().any(|n| *n == ename) || !params.is_empty() {
                        continue;
                    }
                }
                let f = schema.field(&ni.ty, &ename).unwrap();
                let to_ty = f.ty.base().to_string();
                let child_index = node.items.iter().filter(|it| matches!(it, Item::Edge(_))).count();
                let mut child_path = ni.path.clone();
                child_path.push(child_index);
                let cpn = path_name(&child_path);
                let mut modifiers: Vec<(bool, Option<u32>, bool)> = vec![(false, None, false), (true, None, false), (false, None, true)];
                if crate::reference::recursion_coercion(schema, &ni.ty, &ename).is_ok() {
                    for d in &cfg.recurse_depths {
                        modifiers.push((false, Some(*d), false));
                    }
                }
                for (optional, recurse, fold) in modifiers {
                    let out_prop = if schema.field(&to_ty, "n").is_some() { "n" } else { "s" };
                    let bare_prop = if schema.field(&to_ty, "id").is_some() { "id" } else { "s" };
                    for content in cfg.e_contents.iter().copied() {
                        let mut e = EdgeUse::new(&ename);
                        e.params = params.clone();
                        e.optional = optional;
                        e.recurse = recurse;
                        e.fold = fold;
                        e.node.items.push(Item::Prop(if content == 0 {
                            PropUse::new(bare_prop)
                        } else {
                            PropUse { name: out_prop.into(), alias: None, dirs: vec![Dir::Output(Some(format!("o{cpn}{out_prop}")))] }
                        }));
                        let mut q2 = q.clone();
                        node_at_mut(&mut q2, &ni.path).items.push(Item::Edge(e));
                        out.push(q2);
                    }
                }
            }
        }

        // C: coercion on this node
        if cfg.allows("C") && node.coerce.is_none() {
            for t in schema.concrete_types() {
                if t.name != ni.ty && schema.instance_of(&t.name, &ni.ty) {
                    let mut q2 = q.clone();
                    node_at_mut(&mut q2, &ni.path).coerce = Some(t.name.clone());
                    out.push(q2);
                }
            }
        }

        // Po: explicit-name output of a property (non-root nodes and other properties)
        for prop in ["n", "s", "l", "__typename"] {
            if !cfg.allows("Po") {
                break;
            }
            if prop_type(schema, &ni.ty, prop).is_some() && !has_dir(node, prop, |d| matches!(d, Dir::Output(_))) {
                let mut q2 = q.clone();
                add_prop_dir(node_at_mut(&mut q2, &ni.path), prop, Dir::Output(Some(format!("o{pn}{}", prop.trim_start_matches('_')))));
                out.push(q2);
            }
        }
        // Poi: implicit-name output (prefix naming rule)
        if cfg.allows("Poi") && cfg.naming_devs && prop_type(schema, &ni.ty, "f").is_some() && !has_dir(node, "f", |d| matches!(d, Dir::Output(_))) {
            let mut q2 = q.clone();
            add_prop_dir(node_at_mut(&mut q2, &ni.path), "f", Dir::Output(None));
            out.push(q2);
        }

        // Pf: variable filter
        for (k, (prop, op)) in filter_menu(cfg).iter().enumerate() {
            if !cfg.allows("Pf") {
                break;
            }
            let pt = match prop_type(schema, &ni.ty, prop) {
                Some(t) => t,
                None => continue,
            };
            if matches!(*op, "is_null" | "is_not_null") && !pt.nullable() && !cfg.full_menus {
                continue;
            }
            if has_dir(node, prop, |d| matches!(d, Dir::Filter { op: o, .. } if o == op)) {
                continue;
            }
            let arg = if matches!(*op, "is_null" | "is_not_null") { None } else { Some(ArgRef::Var(format!("v{pn}_{k}"))) };
            let mut q2 = q.clone();
            add_prop_dir(node_at_mut(&mut q2, &ni.path), prop, Dir::Filter { op: op.to_string(), arg });
            out.push(q2);
        }
        // Px: __typename filter
        if cfg.allows("Px") && !has_dir(node, "__typename", |d| matches!(d, Dir::Filter { .. })) {
            let mut q2 = q.clone();
            add_prop_dir(node_at_mut(&mut q2, &ni.path), "__typename", Dir::Filter { op: "=".into(), arg: Some(ArgRef::Var(format!("v{pn}_ty"))) });
            out.push(q2);
        }

        // Pt: tag here + filter at this or a later node (engine order)
        for (tk, (tprop, fprop, op)) in tag_menu(cfg).into_iter().enumerate() {
            if !cfg.allows("Pt") || (cfg.tag_menu_cap > 0 && tk >= cfg.tag_menu_cap) {
                break;
            }
            if prop_type(schema, &ni.ty, tprop).is_none() {
                continue;
            }
            let tname = format!("t{pn}{tprop}");
            if has_dir(node, tprop, |d| matches!(d, Dir::Tag(Some(n)) if *n == tname)) {
                // tag exists already: allow a second use of the same tag (counts as one deviation)
            }
            for uj in infos.iter().skip(idx) {
                if prop_type(schema, &uj.ty, fprop).is_none() {
                    continue;
                }
                if uj.path == ni.path && tprop == fprop {
                    continue; // comparing a property with itself is vacuous
                }
                let unode = node_at(q, &uj.path);
                let tagref = ArgRef::Tag(tname.clone());
                if has_dir(unode, fprop, |d| matches!(d, Dir::Filter { op: o, arg: Some(a) } if o == op && *a == tagref)) {
                    continue;
                }
                let mut q2 = q.clone();
                if !has_dir(node, tprop, |d| matches!(d, Dir::Tag(Some(n)) if *n == tname)) {
                    add_prop_dir(node_at_mut(&mut q2, &ni.path), tprop, Dir::Tag(Some(tname.clone())));
                }
                add_prop_dir(node_at_mut(&mut q2, &uj.path), fprop, Dir::Filter { op: op.to_string(), arg: Some(tagref) });
                out.push(q2);
            }
        }
    }

    // Pv: reuse an existing variable in a second filter (the frontend intersects the types of all uses,
    // or rejects incompatible ones)
    if cfg.allows("Pv") {
        let mut vars: Vec<String> = vec![];
        fn collect_vars(n: &Node, out: &mut Vec<String>) {
            for it in &n.items {
                match it {
                    Item::Prop(p) => {
                        for d in &p.dirs {
                            if let Dir::Filter { arg: Some(ArgRef::Var(v)), .. } = d {
                                if !out.contains(v) {
                                    out.push(v.clone());
                                }
                            }
                        }
                    }
                    Item::Edge(e) => {
                        for d in e.count.iter().flatten() {
                            if let Dir::Filter { arg: Some(ArgRef::Var(v)), .. } = d {
                                if !out.contains(v) {
                                    out.push(v.clone());
                                }
                            }
                        }
                        collect_vars(&e.node, out)
                    }
                }
            }
        }
        collect_vars(&q.node, &mut vars);
        for v in vars.iter().filter(|v| !v.ends_with("_ty")) {
            for ni in infos.iter() {
                let node = node_at(q, &ni.path);
                for (prop, op) in [("n", "="), ("id", "="), ("n", ">"), ("s", "="), ("n", "one_of"), ("id", "one_of"), ("id", "not_one_of"), ("l", "contains"), ("ll", "contains")] {
                    if prop_type(schema, &ni.ty, prop).is_none() {
                        continue;
                    }
                    let same = ArgRef::Var(v.clone());
                    if has_dir(node, prop, |d| matches!(d, Dir::Filter { op: o, arg: Some(a) } if o == op && *a == same)) {
                        continue;
                    }
                    let mut q2 = q.clone();
                    add_prop_dir(node_at_mut(&mut q2, &ni.path), prop, Dir::Filter { op: op.to_string(), arg: Some(same) });
                    out.push(q2);
                }
            }
            // ... and in a fold-count filter (count is Int!, so these uses imply Int! / [Int!]!)
            for ni in infos.iter().skip(1) {
                let e = edge_at(q, &ni.path);
                if !e.fold {
                    continue;
                }
                for op in ["=", ">=", "one_of"] {
                    let same = ArgRef::Var(v.clone());
                    if e.count.iter().flatten().any(|d| matches!(d, Dir::Filter { op: o, arg: Some(a) } if o == op && *a == same)) {
                        continue;
                    }
                    let mut q2 = q.clone();
                    edge_at_mut(&mut q2, &ni.path).count.get_or_insert_with(Vec::new).push(Dir::Filter { op: op.to_string(), arg: Some(same) });
                    out.push(q2);
                }
            }
        }
    }

    // deviations on edges
    for ni in infos.iter().skip(1) {
        let e = edge_at(q, &ni.path);
        let pn = path_name(&ni.path);
        // Ae: alias an edge (prefix naming)
        if cfg.allows("Ae") && cfg.naming_devs && e.alias.is_none() {
            let mut q2 = q.clone();
            edge_at_mut(&mut q2, &ni.path).alias = Some(format!("a{pn}_"));
            out.push(q2);
        }
        if !e.fold {
            continue;
        }
        let has_count = |pred: &dyn Fn(&Dir) -> bool| e.count.as_ref().map(|c| c.iter().any(pred)).unwrap_or(false);
        // Fco: count output
        if cfg.allows("Fco") && !has_count(&|d| matches!(d, Dir::Output(_))) {
            let mut q2 = q.clone();
            edge_at_mut(&mut q2, &ni.path).count.get_or_insert_with(Vec::new).push(Dir::Output(Some(format!("c{pn}"))));
            out.push(q2);
        }
        // Fcf: count filter with a variable
        for (k, op) in ["=", "<", "<=", ">", ">=", "one_of", "!=", "not_one_of"].iter().enumerate() {
            if !cfg.allows("Fcf") {
                break;
            }
            if has_count(&|d| matches!(d, Dir::Filter { op: o, .. } if o == op)) {
                continue;
            }
            let mut q2 = q.clone();
            edge_at_mut(&mut q2, &ni.path).count.get_or_insert_with(Vec::new).push(Dir::Filter { op: op.to_string(), arg: Some(ArgRef::Var(format!("k{pn}_{k}"))) });
            out.push(q2);
        }
        // Fct: count tag + a use at a later node's property or a later fold's count
        if !cfg.allows("Fct") {
            continue;
        }
        let tname = format!("ct{pn}");
        let my_pos = infos.iter().position(|x| x.path == ni.path).unwrap();
        for uj in infos.iter() {
            // property filter anywhere the frontend may accept it (it decides: same component, later vertex)
            for (fprop, op) in [("n", "="), ("n", ">="), ("id", "<")] {
                if prop_type(schema, &uj.ty, fprop).is_none() {
                    continue;
                }
                let mut q2 = q.clone();
                let c = edge_at_mut(&mut q2, &ni.path).count.get_or_insert_with(Vec::new);
                if !c.iter().any(|d| matches!(d, Dir::Tag(Some(n)) if *n == tname)) {
                    c.push(Dir::Tag(Some(tname.clone())));
                }
                add_prop_dir(node_at_mut(&mut q2, &uj.path), fprop, Dir::Filter { op: op.to_string(), arg: Some(ArgRef::Tag(tname.clone())) });
                out.push(q2);
            }
        }
        for (j, uj) in infos.iter().enumerate().skip(1) {
            if j <= my_pos || !edge_at(q, &uj.path).fold {
                continue;
            }
            for op in ["=", ">=", "<"] {
                let mut q2 = q.clone();
                let c = edge_at_mut(&mut q2, &ni.path).count.get_or_insert_with(Vec::new);
                if !c.iter().any(|d| matches!(d, Dir::Tag(Some(n)) if *n == tname)) {
                    c.push(Dir::Tag(Some(tname.clone())));
                }
                edge_at_mut(&mut q2, &uj.path).count.get_or_insert_with(Vec::new).push(Dir::Filter { op: op.to_string(), arg: Some(ArgRef::Tag(tname.clone())) });
                out.push(q2);
            }
        }
    }
    if cfg.invalid_devs {
        invalid_deviations(schema, q, &infos, &mut out);
    }
    out
}

fn rename_in_dirs(ds: &mut [Dir], from: &str, to: &str, tags: bool) {
    for d in ds.iter_mut() {
        match d {
            Dir::Output(Some(n)) if !tags && n == from => *n = to.to_string(),
            Dir::Tag(Some(n)) if tags && n == from => *n = to.to_string(),
            _ => {}
        }
    }
}

fn rename_everywhere(n: &mut Node, from: &str, to: &str, tags: bool) {
    for it in n.items.iter_mut() {
        match it {
            Item::Prop(p) => rename_in_dirs(&mut p.dirs, from, to, tags),
            Item::Edge(e) => {
                if let Some(c) = e.count.as_mut() {
                    rename_in_dirs(c, from, to, tags);
                }
                rename_everywhere(&mut e.node, from, to, tags);
            }
        }
    }
}

fn collect_names(n: &Node, tags: bool, out: &mut Vec<String>) {
    let mut take = |ds: &[Dir]| {
        for d in ds {
            match d {
                Dir::Output(Some(x)) if !tags => out.push(x.clone()),
                Dir::Tag(Some(x)) if tags => out.push(x.clone()),
                _ => {}
            }
        }
    };
    for it in &n.items {
        match it {
            Item::Prop(p) => take(&p.dirs),
            Item::Edge(e) => {
                if let Some(c) = &e.count {
                    take(c);
                }
            }
        }
    }
    for it in &n.items {
        if let Item::Edge(e) = it {
            collect_names(&e.node, tags, out);
        }
    }
}

/// Deviations that make the query invalid; the frontend must answer with a typed error.
fn invalid_deviations(schema: &SchemaModel, q: &Query, infos: &[NodeInfo], out: &mut Vec<Query>) {
    // name collisions: make one explicit output (or tag) name equal to another one
    for tags in [false, true] {
        let mut names = vec![];
        collect_names(&q.node, tags, &mut names);
        names.dedup();
        for a in &names {
            for b in &names {
                if a != b {
                    let mut q2 = q.clone();
                    rename_everywhere(&mut q2.node, b, a, tags);
                    out.push(q2);
                }
            }
        }
    }
    // unsupported directive combinations on an existing edge, wherever it sits: a second modifier next to
    // the one it has (@optional @fold, @recurse @fold, @optional @recurse), a zero recursion depth
    for ni in infos.iter().skip(1) {
        let e = edge_at(q, &ni.path);
        let mut variants: Vec<(bool, Option<u32>, bool)> = vec![];
        if e.fold {
            variants.push((true, e.recurse, true));
            variants.push((e.optional, Some(2), true));
        }
        if e.optional {
            variants.push((true, e.recurse, true));
            variants.push((true, Some(2), e.fold));
        }
        if e.recurse.is_some() {
            variants.push((e.optional, e.recurse, true));
            variants.push((true, e.recurse, e.fold));
            variants.push((e.optional, Some(0), e.fold));
        }
        for (o, r, f) in variants {
            if (o, r, f) != (e.optional, e.recurse, e.fold) {
                let mut q2 = q.clone();
                let e2 = edge_at_mut(&mut q2, &ni.path);
                e2.optional = o;
                e2.recurse = r;
                e2.fold = f;
                out.push(q2);
            }
        }
    }
    // edge parameters of the wrong type / unknown / missing-required, on the root edge and on a new `nb` edge
    for (k, v) in [("min", values::s("a")), ("min", FV::Float64(1.5)), ("min", values::list(vec![values::i(1)])), ("only", values::i(1)), ("zz", values::i(1)), ("min", FV::Boolean(true))] {
        if q.root == "V" {
            let mut q2 = q.clone();
            q2.root_params = vec![(k.to_string(), v)];
            out.push(q2);
        }
    }
    for ni in infos {
        if schema.field(&ni.ty, "nb").is_some() && count_vertices(q) < 4 {
            for params in [vec![], vec![("k", FV::Null)], vec![("k", values::s("a"))]] {
                let mut e = EdgeUse::new("req");
                e.params = params.into_iter().map(|(k, v)| (k.to_string(), v)).collect();
                e.node.items.push(Item::Prop(PropUse::new("id")));
                let mut q2 = q.clone();
                node_at_mut(&mut q2, &ni.path).items.push(Item::Edge(e));
                out.push(q2);
            }
            for params in [vec![("min", values::s("a"))], vec![("min", FV::Null)], vec![("tag", values::i(1))], vec![("zz", values::i(1))], vec![("min", FV::Float64(1.5))], vec![("min", values::i(1)), ("min", values::i(2))]] {
                let mut e = EdgeUse::new("nb");
                e.params = params.into_iter().map(|(k, v)| (k.to_string(), v)).collect();
                e.node.items.push(Item::Prop(PropUse::new("id")));
                let mut q2 = q.clone();
                node_at_mut(&mut q2, &ni.path).items.push(Item::Edge(e));
                out.push(q2);
            }
        }
    }
    for ni in infos {
        let pn = path_name(&ni.path);
        // ill-typed filter, undefined tag, unknown property, each at every vertex
        let mut q2 = q.clone();
        if prop_type(schema, &ni.ty, "n").is_some() {
            add_prop_dir(node_at_mut(&mut q2, &ni.path), "n", Dir::Filter { op: "has_prefix".into(), arg: Some(ArgRef::Var(format!("bad{pn}"))) });
            out.push(q2);
        }
        let mut q2 = q.clone();
        add_prop_dir(node_at_mut(&mut q2, &ni.path), if prop_type(schema, &ni.ty, "s").is_some() { "s" } else { "id" }, Dir::Filter { op: "=".into(), arg: Some(ArgRef::Tag("undefined_tag".into())) });
        out.push(q2);
        let mut q2 = q.clone();
        node_at_mut(&mut q2, &ni.path).items.insert(0, Item::Prop(PropUse { name: "nope".into(), alias: None, dirs: vec![Dir::Output(Some(format!("zz{pn}")))] }));
        out.push(q2);
    }
}

pub fn fingerprint(q: &Query) -> u64 {
    crate::common::fnv(q.text().as_bytes())
}

/// Breadth-first enumeration up to `k` deviations; returns the layers (layer i = exactly i deviations,
/// minus anything already produced by fewer).
pub fn enumerate(schema: &SchemaModel, seeds: &[Query], k: usize, cfg: &GenCfg) -> Vec<Vec<Query>> {
    let mut seen: HashSet<u64> = HashSet::new();
    let mut layers: Vec<Vec<Query>> = vec![];
    let mut cur: Vec<Query> = vec![];
    for s in seeds {
        if seen.insert(fingerprint(s)) {
            cur.push(s.clone());
        }
    }
    layers.push(cur.clone());
    for _ in 0..k {
        let mut next = vec![];
        for q in &cur {
            for q2 in deviations(schema, q, cfg) {
                if seen.insert(fingerprint(&q2)) {
                    next.push(q2);
                }
            }
        }
        layers.push(next.clone());
        cur = next;
    }
    layers
}

// ---------------------------------------------------------------------------------------------
// Argument domains

/// Small per-variable domains chosen from the variable's expected type (computed from the AST).
pub fn variable_domain(name: &str, ty: &TyRef, wide: bool) -> Vec<FV> {
    use values::{i, list, s, u};
    let is_count = name.starts_with('k');
    match ty {
        TyRef::Named(b, _) if b == "Int" => {
            if is_count {
                if wide {
                    vec![i(-1), i(0), i(1), i(2), i(3), i(i64::MIN), u(u64::MAX)]
                } else {
                    vec![i(0), i(1), i(2), i(3)]
                }
            } else if wide {
                vec![i(-1), i(0), i(1), i(2), i(i64::MIN), u(u64::MAX)]
            } else {
                vec![i(1), i(2)]
            }
        }
        TyRef::Named(b, _) if b == "String" => {
            if name.ends_with("_ty") {
                vec![s("A"), s("B")]
            } else if wide {
                vec![s(""), s("a"), s("("), s(".*")]
            } else {
                vec![s("a"), s("b")]
            }
        }
        TyRef::Named(b, _) if b == "Float" => vec![FV::Float64(1.5)],
        TyRef::Named(b, _) if b == "Boolean" => vec![FV::Boolean(true)],
        TyRef::List(inner, _) => match inner.as_ref() {
            TyRef::Named(b, _) if b == "Int" => {
                if is_count {
                    vec![list(vec![]), list(vec![i(2)]), list(vec![i(0), i(3)])]
                } else if wide {
                    vec![list(vec![]), list(vec![i(1)]), list(vec![i(1), i(2)]), list(vec![FV::Null, i(2)])]
                } else {
                    vec![list(vec![i(1), i(2)]), list(vec![])]
                }
            }
            TyRef::Named(b, _) if b == "String" => vec![list(vec![s("a")]), list(vec![])],
            _ => vec![list(vec![])],
        },
        _ => vec![FV::Null],
    }
}

/// Every argument map over the per-variable domains (full product; the caller bounds domain sizes).
pub fn argument_maps(vars: &BTreeMap<String, TyRef>, wide: bool, cap_per_var: usize) -> Vec<BTreeMap<String, FV>> {
    let mut maps: Vec<BTreeMap<String, FV>> = vec![BTreeMap::new()];
    for (name, ty) in vars {
        let mut dom = variable_domain(name, ty, wide);
        dom.truncate(cap_per_var.max(1));
        let mut next = vec![];
        for m in &maps {
            for v in &dom {
                let mut m2 = m.clone();
                m2.insert(name.clone(), v.clone());
                next.push(m2);
            }
        }
        maps = next;
    }
    maps
}

/// Queries with one or two added edges (next/one; plain, @optional, @fold, @recurse(2); each with
/// one output, so that what a filter inside a fold removes is visible in the rows) plus exactly one tag-related deviation (property tag + use, or count tag + use).
/// These are 2- and 3-deviation members of the same space, selected because tag bookkeeping
/// across optional / fold / recurse scopes needs at least two edges to exist first.
pub fn tag_shapes(schema: &SchemaModel) -> Vec<Query> {
    let cfg_e = GenCfg { allow: Some(vec!["E"]), e_names: Some(vec!["next", "one"]), e_contents: vec![1], recurse_depths: vec![2], naming_devs: false, ..Default::default() };
    let layers = enumerate(schema, &[skeleton()], 2, &cfg_e);
    let cfg_t = GenCfg { allow: Some(vec!["Pt", "Fct"]), tag_menu_cap: 3, naming_devs: false, ..Default::default() };
    let mut seen = HashSet::new();
    let mut out = vec![];
    for s in layers.iter().skip(1).flatten() {
        for q in deviations(schema, s, &cfg_t) {
            if seen.insert(fingerprint(&q)) {
                out.push(q);
            }
        }
    }
    out
}

/// Largest number of distinct property tags that one `@fold` of `q` imports from outside itself.
pub fn max_tags_imported_by_a_fold(q: &Query) -> usize {
    fn defined(n: &Node, out: &mut HashSet<String>) {
        for it in &n.items {
            match it {
                Item::Prop(p) => {
                    for d in &p.dirs {
                        if let Dir::Tag(Some(t)) = d {
                            out.insert(t.clone());
                        }
                    }
                }
                Item::Edge(e) => defined(&e.node, out),
            }
        }
    }
    fn used(n: &Node, out: &mut HashSet<String>) {
        for it in &n.items {
            match it {
                Item::Prop(p) => {
                    for d in &p.dirs {
                        if let Dir::Filter { arg: Some(ArgRef::Tag(t)), .. } = d {
                            out.insert(t.clone());
                        }
                    }
                }
                Item::Edge(e) => used(&e.node, out),
            }
        }
    }
    fn walk(n: &Node, best: &mut usize) {
        for it in &n.items {
            if let Item::Edge(e) = it {
                if e.fold {
                    let (mut d, mut u) = (HashSet::new(), HashSet::new());
                    defined(&e.node, &mut d);
                    used(&e.node, &mut u);
                    *best = (*best).max(u.difference(&d).count());
                }
                walk(&e.node, best);
            }
        }
    }
    let mut best = 0;
    walk(&q.node, &mut best);
    best
}

/// Two-edge structures with exactly two tag deviations such that some `@fold` imports two distinct
/// tags (the fold keeps per-context bookkeeping for every imported tag; one tag cannot show
/// cross-talk between them).
pub fn two_tag_fold_shapes(schema: &SchemaModel) -> Vec<Query> {
    let cfg_e = GenCfg { allow: Some(vec!["E"]), e_names: Some(vec!["next", "one"]), e_contents: vec![1], recurse_depths: vec![2], naming_devs: false, ..Default::default() };
    let layers = enumerate(schema, &[skeleton()], 2, &cfg_e);
    let cfg_t = GenCfg { allow: Some(vec!["Pt"]), tag_menu_cap: 2, naming_devs: false, ..Default::default() };
    let mut seen = HashSet::new();
    let mut out = vec![];
    for s in layers.iter().skip(1).flatten() {
        if !text_has_fold(s) {
            continue;
        }
        for q1 in deviations(schema, s, &cfg_t) {
            for q in deviations(schema, &q1, &cfg_t) {
                if max_tags_imported_by_a_fold(&q) >= 2 && seen.insert(fingerprint(&q)) {
                    out.push(q);
                }
            }
        }
    }
    out
}

fn text_has_fold(q: &Query) -> bool {
    fn w(n: &Node) -> bool {
        n.items.iter().any(|it| matches!(it, Item::Edge(e) if e.fold || w(&e.node)))
    }
    w(&q.node)
}
