//! Reference evaluator: a direct, tuple-at-a-time implementation of the declared query
//! semantics over (AST, dataset, arguments). See DESIGN.md Appendix A. Deliberately shaped
//! unlike `execution.rs`: no iterators, no contexts, no Vid/Eid, folds by recursion.
//! Also derives, from the AST and the schema text only: completed edge parameters, output names
//! and types, expected variable types, and the implicit recursion coercion.

use std::collections::BTreeMap;

use trustfall_core::ir::FieldValue as FV;

use crate::{
    dataset::{Dataset, World},
    props::c07::reference as op_reference,
    qast::{params_to_map, ArgRef, Dir, EdgeUse, Item, Node, Query},
    schema_model::{FieldModel, SchemaModel, TyRef},
    values,
};

#[derive(Clone, Debug, PartialEq)]
pub enum TagVal {
    Val(FV),
    MissingOptional,
}

pub type Env = BTreeMap<String, TagVal>;
pub type Outs = BTreeMap<String, FV>;

#[derive(Clone, Copy, Debug, PartialEq)]
pub enum St {
    Present(usize),
    Missing,
}

/// The oracle does not define this case (reported and skipped, never a verdict).
#[derive(Debug, Clone)]
pub struct Undefined(pub String);

type R<T> = Result<T, Undefined>;

fn undef<T>(s: impl Into<String>) -> R<T> {
    Err(Undefined(s.into()))
}

pub struct RefEval<'a> {
    pub world: &'a World,
    pub ds: &'a Dataset,
    pub args: &'a BTreeMap<String, FV>,
    /// every (type, edge, completed parameters) the evaluator handed to the dataset lookup
    pub edge_calls: std::cell::RefCell<Vec<(String, String, BTreeMap<String, FV>)>>,
}

pub fn tag_name(alias: &Option<String>, field: &str, explicit: &Option<String>) -> String {
    explicit.clone().or_else(|| alias.clone()).unwrap_or_else(|| field.to_string())
}

pub fn count_output_name(prefix_with_edge_alias: &str, e: &EdgeUse, explicit: &Option<String>) -> String {
    match explicit {
        Some(n) => n.clone(),
        None => format!("{prefix_with_edge_alias}{}count", if e.alias.is_some() { "" } else { e.name.as_str() }),
    }
}

fn prefix_after(prefix: &str, e: &EdgeUse) -> String {
    format!("{prefix}{}", e.alias.as_deref().unwrap_or(""))
}

impl<'a> RefEval<'a> {
    pub fn new(world: &'a World, ds: &'a Dataset, args: &'a BTreeMap<String, FV>) -> Self {
        RefEval { world, ds, args, edge_calls: Default::default() }
    }

    fn schema(&self) -> &SchemaModel {
        &self.world.schema
    }

    /// Rows grouped by starting vertex, in starting-vertex order.
    pub fn run_grouped(&self, q: &Query) -> R<Vec<Vec<Outs>>> {
        let root_field = match self.schema().root_type().field(&q.root) {
            Some(f) => f,
            None => return undef("unknown root edge"),
        };
        let params = self.schema().complete_params(root_field, &params_to_map(&q.root_params));
        self.edge_calls.borrow_mut().push((self.schema().root.clone(), q.root.clone(), params.clone()));
        let starts = self.world.start(self.ds, &q.root, &params);
        let ty = root_field.ty.base().to_string();
        let mut out = vec![];
        for v in starts {
            let rs = self.enter(&q.node, &ty, St::Present(v), &Env::new(), "")?;
            out.push(rs.into_iter().map(|(_, o)| o).collect());
        }
        Ok(out)
    }

    pub fn run(&self, q: &Query) -> R<Vec<Outs>> {
        Ok(self.run_grouped(q)?.into_iter().flatten().collect())
    }

    fn static_type_after_coercion(&self, n: &Node, ty: &str) -> String {
        n.coerce.clone().unwrap_or_else(|| ty.to_string())
    }

    fn prop(&self, st: St, name: &str) -> FV {
        match st {
            St::Present(v) => self.ds.prop(v, name),
            St::Missing => FV::Null,
        }
    }

    fn arg_value(&self, arg: &ArgRef, env: &Env) -> R<TagVal> {
        match arg {
            ArgRef::Var(v) => match self.args.get(v) {
                Some(x) => Ok(TagVal::Val(x.clone())),
                None => undef(format!("variable ${v} has no argument")),
            },
            ArgRef::Tag(t) => match env.get(t) {
                Some(x) => Ok(x.clone()),
                None => undef(format!("tag %{t} not bound at its use")),
            },
        }
    }

    fn filter_passes(&self, op: &str, left: &FV, arg: &Option<ArgRef>, env: &Env) -> R<bool> {
        let right = match arg {
            None => FV::Null,
            Some(a) => match self.arg_value(a, env)? {
                TagVal::MissingOptional => return Ok(true),
                TagVal::Val(v) => v,
            },
        };
        match op_reference(op, left, &right) {
            Some(b) => Ok(b),
            None => undef(format!("operator {op} undefined on these operands")),
        }
    }

    /// DESIGN.md Appendix A `enter`.
    pub fn enter(&self, n: &Node, ty: &str, st: St, env: &Env, prefix: &str) -> R<Vec<(Env, Outs)>> {
        let ty = &self.static_type_after_coercion(n, ty);
        if let (St::Present(v), Some(c)) = (st, &n.coerce) {
            if !self.world.instance_of(self.ds, v, c) {
                return Ok(vec![]);
            }
        }
        let mut env = env.clone();
        for it in &n.items {
            if let Item::Prop(p) = it {
                for d in &p.dirs {
                    if let Dir::Tag(name) = d {
                        let tv = match st {
                            St::Present(_) => TagVal::Val(self.prop(st, &p.name)),
                            St::Missing => TagVal::MissingOptional,
                        };
                        env.insert(tag_name(&p.alias, &p.name, name), tv);
                    }
                }
            }
        }
        if let St::Present(_) = st {
            for it in &n.items {
                if let Item::Prop(p) = it {
                    for d in &p.dirs {
                        if let Dir::Filter { op, arg } = d {
                            if !self.filter_passes(op, &self.prop(st, &p.name), arg, &env)? {
                                return Ok(vec![]);
                            }
                        }
                    }
                }
            }
        }
        let mut outs = Outs::new();
        for it in &n.items {
            if let Item::Prop(p) = it {
                for d in &p.dirs {
                    if let Dir::Output(name) = d {
                        let key = match name {
                            Some(x) => x.clone(),
                            None => format!("{prefix}{}", p.alias.as_deref().unwrap_or(&p.name)),
                        };
                        outs.insert(key, self.prop(st, &p.name));
                    }
                }
            }
        }
        let mut results = vec![(env, outs)];
        for it in &n.items {
            if let Item::Edge(e) = it {
                let mut next = vec![];
                for (e1, o1) in &results {
                    for (e2, o2) in self.expand(e, ty, st, e1, prefix)? {
                        let mut o = o1.clone();
                        o.extend(o2);
                        next.push((e2, o));
                    }
                }
                results = next;
                if results.is_empty() {
                    break;
                }
            }
        }
        Ok(results)
    }

    fn edge_field(&self, ty: &str, e: &EdgeUse) -> R<&FieldModel> {
        match self.schema().field(ty, &e.name) {
            Some(f) => Ok(f),
            None => undef(format!("edge {} not on type {ty}", e.name)),
        }
    }

    fn neighbors(&self, v: usize, ty: &str, e: &EdgeUse, field: &FieldModel) -> Vec<usize> {
        let params = self.schema().complete_params(field, &params_to_map(&e.params));
        self.edge_calls.borrow_mut().push((ty.to_string(), e.name.clone(), params.clone()));
        self.world.neighbors(self.ds, v, ty, &e.name, &params)
    }

    fn expand(&self, e: &EdgeUse, from_ty: &str, st: St, env: &Env, prefix: &str) -> R<Vec<(Env, Outs)>> {
        let field = self.edge_field(from_ty, e)?;
        let to_ty = field.ty.base().to_string();
        let prefix2 = prefix_after(prefix, e);
        if e.fold {
            return self.expand_fold(e, from_ty, &to_ty, st, env, &prefix2);
        }
        let v = match st {
            St::Missing => return self.enter(&e.node, &to_ty, St::Missing, env, &prefix2),
            St::Present(v) => v,
        };
        if let Some(depth) = e.recurse {
            let x = recursion_coercion(self.schema(), from_ty, &e.name)?;
            let mut out = vec![];
            // one result per path, in depth-first pre-order (a vertex, then what is reachable from it)
            let mut stack: Vec<(usize, u32)> = vec![(v, 0)];
            while let Some((u, i)) = stack.pop() {
                out.extend(self.enter(&e.node, &to_ty, St::Present(u), env, &prefix2)?);
                if i == depth {
                    continue;
                }
                let expandable = i == 0 || x.as_ref().map(|x| self.world.instance_of(self.ds, u, x)).unwrap_or(true);
                if expandable {
                    // depth >= 1 expansions are resolved on the coercion type (or the edge's target type)
                    let ty_here = if i == 0 { from_ty.to_string() } else { x.clone().unwrap_or_else(|| to_ty.clone()) };
                    let f = self.edge_field(&ty_here, e)?;
                    for n in self.neighbors(u, &ty_here, e, f).into_iter().rev() {
                        stack.push((n, i + 1));
                    }
                }
            }
            return Ok(out);
        }
        let ns = self.neighbors(v, from_ty, e, field);
        if ns.is_empty() && e.optional {
            return self.enter(&e.node, &to_ty, St::Missing, env, &prefix2);
        }
        let mut out = vec![];
        for n in ns {
            out.extend(self.enter(&e.node, &to_ty, St::Present(n), env, &prefix2)?);
        }
        Ok(out)
    }

    fn expand_fold(&self, e: &EdgeUse, from_ty: &str, to_ty: &str, st: St, env: &Env, prefix2: &str) -> R<Vec<(Env, Outs)>> {
        let inner_names = output_names_inside(self.schema(), &e.node, to_ty, prefix2)?;
        let count_dirs: &[Dir] = e.count.as_deref().unwrap_or(&[]);
        let mut env_out = env.clone();
        let mut outs = Outs::new();
        match st {
            St::Missing => {
                for n in inner_names {
                    outs.insert(n, FV::Null);
                }
                for d in count_dirs {
                    match d {
                        Dir::Output(name) => {
                            outs.insert(count_output_name(prefix2, e, name), FV::Null);
                        }
                        Dir::Tag(Some(name)) => {
                            env_out.insert(name.clone(), TagVal::MissingOptional);
                        }
                        Dir::Tag(None) => return undef("count tag without explicit name"),
                        Dir::Filter { .. } => {} // passes
                    }
                }
            }
            St::Present(v) => {
                let field = self.edge_field(from_ty, e)?;
                let mut elems: Vec<Outs> = vec![];
                for n in self.neighbors(v, from_ty, e, field) {
                    for (_, o) in self.enter(&e.node, to_ty, St::Present(n), env, prefix2)? {
                        elems.push(o);
                    }
                }
                let k = FV::Uint64(elems.len() as u64);
                // tags first (a count tag may be referenced by a later count filter of a sibling, never its own)
                for d in count_dirs {
                    match d {
                        Dir::Tag(Some(name)) => {
                            env_out.insert(name.clone(), TagVal::Val(k.clone()));
                        }
                        Dir::Tag(None) => return undef("count tag without explicit name"),
                        _ => {}
                    }
                }
                for d in count_dirs {
                    if let Dir::Filter { op, arg } = d {
                        if !self.filter_passes(op, &k, arg, env)? {
                            return Ok(vec![]);
                        }
                    }
                }
                for n in inner_names {
                    let col: Vec<FV> = elems.iter().map(|o| o.get(&n).cloned().unwrap_or(FV::Null)).collect();
                    outs.insert(n, values::list(col));
                }
                for d in count_dirs {
                    if let Dir::Output(name) = d {
                        outs.insert(count_output_name(prefix2, e, name), k.clone());
                    }
                }
            }
        }
        Ok(vec![(env_out, outs)])
    }
}

/// The implicit coercion applied when recursing from depth >= 1 (documented cases 3, 4a, 4c).
pub fn recursion_coercion(schema: &SchemaModel, from_ty: &str, edge: &str) -> R<Option<String>> {
    let field = match schema.field(from_ty, edge) {
        Some(f) => f,
        None => return undef("recursed edge not on type"),
    };
    let dest = field.ty.base();
    if dest == from_ty {
        return Ok(None);
    }
    if !schema.instance_of(from_ty, dest) {
        return undef("recursion between unrelated types or to a subtype (frontend should reject)");
    }
    if let Some(df) = schema.field(dest, edge) {
        return if df.ty.base() == dest { Ok(None) } else { undef("recursion needing multiple coercions") };
    }
    // origin: the root-most type(s) among from_ty and its supertypes that define the edge
    let mut cands: Vec<String> = vec![from_ty.to_string()];
    cands.extend(schema.supertypes(from_ty));
    cands.retain(|t| schema.field(t, edge).is_some());
    let origins: Vec<String> = cands.iter().filter(|t| !schema.supertypes(t).iter().any(|s| schema.field(s, edge).is_some())).cloned().collect();
    if origins.len() != 1 {
        return undef("ambiguous edge origin");
    }
    let x = &origins[0];
    if schema.field(x, edge).unwrap().ty.base() == dest {
        Ok(Some(x.clone()))
    } else {
        undef("recursion needing multiple coercions")
    }
}

/// Names of all outputs declared inside `n` (at any fold depth), by the documented naming rule.
pub fn output_names_inside(schema: &SchemaModel, n: &Node, ty: &str, prefix: &str) -> R<Vec<String>> {
    let mut out = vec![];
    let ty = n.coerce.clone().unwrap_or_else(|| ty.to_string());
    for it in &n.items {
        match it {
            Item::Prop(p) => {
                for d in &p.dirs {
                    if let Dir::Output(name) = d {
                        out.push(match name {
                            Some(x) => x.clone(),
                            None => format!("{prefix}{}", p.alias.as_deref().unwrap_or(&p.name)),
                        });
                    }
                }
            }
            Item::Edge(e) => {
                let f = match schema.field(&ty, &e.name) {
                    Some(f) => f,
                    None => return undef(format!("edge {} not on type {ty}", e.name)),
                };
                let p2 = prefix_after(prefix, e);
                if let Some(c) = &e.count {
                    for d in c {
                        if let Dir::Output(name) = d {
                            out.push(count_output_name(&p2, e, name));
                        }
                    }
                }
                out.extend(output_names_inside(schema, &e.node, f.ty.base(), &p2)?);
            }
        }
    }
    Ok(out)
}

/// Declared outputs with their types, derived from the AST and schema text only (C13).
pub fn declared_outputs(schema: &SchemaModel, q: &Query) -> R<BTreeMap<String, TyRef>> {
    fn walk(schema: &SchemaModel, n: &Node, ty: &str, prefix: &str, optional_here: bool, folds: &[bool], out: &mut BTreeMap<String, TyRef>) -> R<()> {
        let ty = n.coerce.clone().unwrap_or_else(|| ty.to_string());
        let wrap = |mut t: TyRef, optional_at: bool, folds: &[bool]| {
            if optional_at {
                t = t.with_nullable(true);
            }
            for f in folds.iter().rev() {
                t = TyRef::list_of(t, *f);
            }
            t
        };
        for it in &n.items {
            match it {
                Item::Prop(p) => {
                    for d in &p.dirs {
                        if let Dir::Output(name) = d {
                            let pt = if p.name == "__typename" {
                                TyRef::Named("String".into(), false)
                            } else {
                                match schema.field(&ty, &p.name) {
                                    Some(f) => f.ty.clone(),
                                    None => return undef(format!("property {} not on {ty}", p.name)),
                                }
                            };
                            let key = match name {
                                Some(x) => x.clone(),
                                None => format!("{prefix}{}", p.alias.as_deref().unwrap_or(&p.name)),
                            };
                            if out.insert(key, wrap(pt, optional_here, folds)).is_some() {
                                return undef("duplicate output name");
                            }
                        }
                    }
                }
                Item::Edge(e) => {
                    let f = match schema.field(&ty, &e.name) {
                        Some(f) => f,
                        None => return undef(format!("edge {} not on {ty}", e.name)),
                    };
                    let p2 = prefix_after(prefix, e);
                    if e.fold {
                        if let Some(c) = &e.count {
                            for d in c {
                                if let Dir::Output(name) = d {
                                    let t = wrap(TyRef::Named("Int".into(), false), optional_here, folds);
                                    if out.insert(count_output_name(&p2, e, name), t).is_some() {
                                        return undef("duplicate output name");
                                    }
                                }
                            }
                        }
                        let mut f2 = folds.to_vec();
                        f2.push(optional_here);
                        walk(schema, &e.node, f.ty.base(), &p2, false, &f2, out)?;
                    } else {
                        walk(schema, &e.node, f.ty.base(), &p2, optional_here || e.optional, folds, out)?;
                    }
                }
            }
        }
        Ok(())
    }
    let root_field = match schema.root_type().field(&q.root) {
        Some(f) => f,
        None => return undef("unknown root edge"),
    };
    let mut out = BTreeMap::new();
    walk(schema, &q.node, root_field.ty.base(), "", false, &[], &mut out)?;
    Ok(out)
}

/// Expected variable types from the documented operator typing rules, intersected over uses (C12).
pub fn expected_variable_types(schema: &SchemaModel, q: &Query) -> R<BTreeMap<String, TyRef>> {
    fn var_type(op: &str, left: &TyRef) -> R<TyRef> {
        Ok(match op {
            "=" | "!=" => left.clone(),
            "<" | "<=" | ">" | ">=" => left.with_nullable(false),
            "contains" | "not_contains" => match left.elem() {
                Some(e) => e.clone(),
                None => return undef("contains on non-list"),
            },
            "one_of" | "not_one_of" => TyRef::list_of(left.clone(), false),
            "has_prefix" | "not_has_prefix" | "has_suffix" | "not_has_suffix" | "has_substring" | "not_has_substring" | "regex" | "not_regex" => {
                TyRef::Named("String".into(), false)
            }
            _ => return undef("operator takes no variable"),
        })
    }
    fn add(out: &mut BTreeMap<String, TyRef>, v: &str, t: TyRef) -> R<()> {
        match out.get(v) {
            None => {
                out.insert(v.to_string(), t);
            }
            Some(prev) => match prev.meet(&t) {
                Some(m) => {
                    out.insert(v.to_string(), m);
                }
                None => return undef("incompatible variable uses"),
            },
        }
        Ok(())
    }
    fn walk(schema: &SchemaModel, n: &Node, ty: &str, out: &mut BTreeMap<String, TyRef>) -> R<()> {
        let ty = n.coerce.clone().unwrap_or_else(|| ty.to_string());
        for it in &n.items {
            match it {
                Item::Prop(p) => {
                    for d in &p.dirs {
                        if let Dir::Filter { op, arg: Some(ArgRef::Var(v)) } = d {
                            let left = if p.name == "__typename" {
                                TyRef::Named("String".into(), false)
                            } else {
                                match schema.field(&ty, &p.name) {
                                    Some(f) => f.ty.clone(),
                                    None => return undef("unknown property"),
                                }
                            };
                            add(out, v, var_type(op, &left)?)?;
                        }
                    }
                }
                Item::Edge(e) => {
                    let f = match schema.field(&ty, &e.name) {
                        Some(f) => f,
                        None => return undef("unknown edge"),
                    };
                    if let Some(c) = &e.count {
                        for d in c {
                            if let Dir::Filter { op, arg: Some(ArgRef::Var(v)) } = d {
                                add(out, v, var_type(op, &TyRef::Named("Int".into(), false))?)?;
                            }
                        }
                    }
                    walk(schema, &e.node, f.ty.base(), out)?;
                }
            }
        }
        Ok(())
    }
    let root_field = match schema.root_type().field(&q.root) {
        Some(f) => f,
        None => return undef("unknown root edge"),
    };
    let mut out = BTreeMap::new();
    walk(schema, &q.node, root_field.ty.base(), &mut out)?;
    Ok(out)
}

/// Every (edge name, completed parameter map) the query may legitimately hand to an adapter,
/// computed from the AST and the schema text: explicit value, else declared default, else null.
pub fn allowed_edge_params(schema: &SchemaModel, q: &Query) -> R<std::collections::BTreeSet<(String, String)>> {
    fn pm(m: &BTreeMap<String, FV>) -> String {
        m.iter().map(|(k, v)| format!("{k}={}", values::canon(v))).collect::<Vec<_>>().join(",")
    }
    fn walk(schema: &SchemaModel, n: &Node, ty: &str, out: &mut std::collections::BTreeSet<(String, String)>) -> R<()> {
        let ty = n.coerce.clone().unwrap_or_else(|| ty.to_string());
        for it in &n.items {
            if let Item::Edge(e) = it {
                let f = match schema.field(&ty, &e.name) {
                    Some(f) => f,
                    None => return undef("unknown edge"),
                };
                out.insert((e.name.clone(), pm(&schema.complete_params(f, &params_to_map(&e.params)))));
                walk(schema, &e.node, f.ty.base(), out)?;
            }
        }
        Ok(())
    }
    let root_field = match schema.root_type().field(&q.root) {
        Some(f) => f,
        None => return undef("unknown root edge"),
    };
    let mut out = std::collections::BTreeSet::new();
    out.insert((q.root.clone(), pm(&schema.complete_params(root_field, &params_to_map(&q.root_params)))));
    walk(schema, &q.node, root_field.ty.base(), &mut out)?;
    Ok(out)
}

pub fn params_key(m: &BTreeMap<String, FV>) -> String {
    m.iter().map(|(k, v)| format!("{k}={}", values::canon(v))).collect::<Vec<_>>().join(",")
}
