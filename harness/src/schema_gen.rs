//! Bounded-exhaustive family of schema *documents* (C19, reused by C20 / C25 / C26): a small
//! document model, a printer, a deviation menu, and an independent validator of the documented
//! schema rules (written from the property text and the error messages' wording, not from the
//! checks in schema/mod.rs).

use std::collections::{BTreeMap, BTreeSet, HashSet};

pub const STANDARD_DIRECTIVES: [&str; 7] = [
    "directive @filter(op: String!, value: [String!]) repeatable on FIELD | INLINE_FRAGMENT",
    "directive @tag(name: String) repeatable on FIELD",
    "directive @output(name: String) repeatable on FIELD",
    "directive @optional on FIELD",
    "directive @recurse(depth: Int!) on FIELD",
    "directive @fold on FIELD",
    "directive @transform(op: String!) repeatable on FIELD",
];

#[derive(Clone, Debug, PartialEq, Eq, Hash)]
pub struct PDef {
    pub name: String,
    pub ty: String,
    pub default: Option<String>,
}

#[derive(Clone, Debug, PartialEq, Eq, Hash)]
pub struct FDef {
    pub name: String,
    pub params: Vec<PDef>,
    pub ty: String,
}

#[derive(Clone, Debug, PartialEq, Eq, Hash)]
pub struct TDef {
    pub interface: bool,
    pub name: String,
    pub implements: Vec<String>,
    pub fields: Vec<FDef>,
}

#[derive(Clone, Debug, PartialEq, Eq, Hash)]
pub struct SDoc {
    /// each entry: the text inside `schema { ... }`
    pub schema_blocks: Vec<String>,
    pub directives: Vec<String>,
    pub scalars: Vec<String>,
    pub types: Vec<TDef>,
}

fn f(name: &str, ty: &str) -> FDef {
    FDef { name: name.into(), params: vec![], ty: ty.into() }
}
fn fp(name: &str, ty: &str, params: Vec<(&str, &str, Option<&str>)>) -> FDef {
    FDef { name: name.into(), ty: ty.into(), params: params.into_iter().map(|(n, t, d)| PDef { name: n.into(), ty: t.into(), default: d.map(|x| x.to_string()) }).collect() }
}

pub fn skeleton() -> SDoc {
    SDoc {
        schema_blocks: vec!["query: Q".into()],
        directives: STANDARD_DIRECTIVES.iter().map(|s| s.to_string()).collect(),
        scalars: vec![],
        types: vec![
            TDef { interface: false, name: "Q".into(), implements: vec![], fields: vec![f("As", "[A!]!"), f("OneB", "B")] },
            TDef { interface: true, name: "A".into(), implements: vec![], fields: vec![f("p", "Int"), fp("e", "[A!]", vec![("x", "Int", Some("1"))])] },
            TDef { interface: false, name: "B".into(), implements: vec!["A".into()], fields: vec![f("p", "Int"), fp("e", "[A!]", vec![("x", "Int", Some("1"))]), f("q", "String")] },
        ],
    }
}

/// A second skeleton with a two-level interface hierarchy (transitive implementation, origins).
pub fn skeleton_hierarchy() -> SDoc {
    let mut d = skeleton();
    d.types.insert(1, TDef { interface: true, name: "N".into(), implements: vec![], fields: vec![f("s", "String")] });
    d.types[2].implements = vec!["N".into()];
    d.types[2].fields.push(f("s", "String"));
    d.types[3].implements = vec!["A".into(), "N".into()];
    d.types[3].fields.push(f("s", "String"));
    d
}

impl SDoc {
    pub fn text(&self) -> String {
        let mut out = String::new();
        for b in &self.schema_blocks {
            out.push_str(&format!("schema {{\n  {b}\n}}\n"));
        }
        for d in &self.directives {
            out.push_str(d);
            out.push('\n');
        }
        for s in &self.scalars {
            out.push_str(&format!("scalar {s}\n"));
        }
        for t in &self.types {
            out.push_str(if t.interface { "interface " } else { "type " });
            out.push_str(&t.name);
            if !t.implements.is_empty() {
                out.push_str(" implements ");
                out.push_str(&t.implements.join(" & "));
            }
            out.push_str(" {\n");
            for fd in &t.fields {
                out.push_str("  ");
                out.push_str(&fd.name);
                if !fd.params.is_empty() {
                    out.push('(');
                    out.push_str(&fd.params.iter().map(|p| format!("{}: {}{}", p.name, p.ty, p.default.as_ref().map(|d| format!(" = {d}")).unwrap_or_default())).collect::<Vec<_>>().join(", "));
                    out.push(')');
                }
                out.push_str(&format!(": {}\n", fd.ty));
            }
            out.push_str("}\n");
        }
        out
    }
}

pub fn list31() -> String {
    format!("{}Int{}", "[".repeat(31), "]".repeat(31))
}

fn field_type_menu() -> Vec<String> {
    let mut v: Vec<String> = ["Int", "Int!", "String", "Float", "Boolean", "ID", "[Int]", "[[Int!]]", "Custom", "Undef", "A", "[A]", "[A!]!", "[[A]]", "B", "Q", "[Q]"].iter().map(|s| s.to_string()).collect();
    v.push(list31());
    v
}

fn param_menu() -> Vec<Vec<PDef>> {
    let p = |n: &str, t: &str, d: Option<&str>| PDef { name: n.into(), ty: t.into(), default: d.map(|x| x.to_string()) };
    vec![
        vec![p("x", "Int", None)],
        vec![p("x", "Int", Some("1"))],
        vec![p("x", "Int", Some("\"s\""))],
        vec![p("x", "Int!", Some("null"))],
        vec![p("x", "[Int]", Some("[1, null]"))],
        vec![p("x", "[Int!]", Some("[1, null]"))],
        vec![p("x", "Int", Some("FOO"))],
        vec![p("x", "Int", Some("{a: 1}"))],
        vec![p("x", "Float", Some("1"))],
        vec![p("x", "String", Some("1.5"))],
        vec![p("x", "A", None)],
        vec![p("x", "Undef", Some("1"))],
    ]
}

fn type_variants(t: &str) -> Vec<String> {
    let mut out = vec![];
    // toggle the outermost nullability
    if let Some(stripped) = t.strip_suffix('!') {
        out.push(stripped.to_string());
    } else {
        out.push(format!("{t}!"));
    }
    // toggle inner nullability of a list
    if t.starts_with('[') {
        let (inner, outer_nn) = if let Some(s) = t.strip_suffix("]!") { (&s[1..], true) } else { (&t[1..t.len() - 1], false) };
        let inner2 = if let Some(s) = inner.strip_suffix('!') { s.to_string() } else { format!("{inner}!") };
        out.push(format!("[{inner2}]{}", if outer_nn { "!" } else { "" }));
        out.push(inner.to_string()); // unwrap the list
    } else {
        out.push(format!("[{t}]"));
    }
    // swap the base name
    for (a, b) in [("Int", "String"), ("String", "Int"), ("A", "B"), ("B", "A")] {
        let base: String = t.chars().filter(|c| c.is_alphanumeric() || *c == '_').collect();
        if base == a {
            out.push(t.replace(a, b));
        }
    }
    out
}

/// All single-deviation successors.
pub fn deviations(d: &SDoc) -> Vec<SDoc> {
    let mut out = vec![];
    let mut push = |x: SDoc| out.push(x);
    // D1 add a type definition
    for interface in [false, true] {
        for name in ["C", "__X", "Int", "A", "Q"] {
            for implements in [vec![], vec!["A".to_string()]] {
                let mut x = d.clone();
                let mut fields = vec![f("p", "Int")];
                if !implements.is_empty() {
                    fields.push(fp("e", "[A!]", vec![("x", "Int", Some("1"))]));
                }
                x.types.push(TDef { interface, name: name.into(), implements, fields });
                push(x);
            }
        }
    }
    for (ti, t) in d.types.iter().enumerate() {
        // D2 toggle implements
        let mut names: Vec<String> = d.types.iter().map(|t| t.name.clone()).collect();
        names.push("Undef".into());
        names.sort();
        names.dedup();
        for n in names {
            let mut x = d.clone();
            if let Some(pos) = t.implements.iter().position(|i| *i == n) {
                x.types[ti].implements.remove(pos);
            } else {
                x.types[ti].implements.push(n);
            }
            push(x);
        }
        // D3 add a field
        for ty in field_type_menu() {
            let mut x = d.clone();
            x.types[ti].fields.push(f("n", &ty));
            push(x);
        }
        for (name, ty) in [("p", "Int"), ("__r", "Int"), ("__typename", "String!")] {
            let mut x = d.clone();
            x.types[ti].fields.push(f(name, ty));
            push(x);
        }
        for params in param_menu() {
            let mut x = d.clone();
            x.types[ti].fields.push(FDef { name: "n".into(), params, ty: "[A]".into() });
            push(x);
        }
        {
            let mut x = d.clone();
            x.types[ti].fields.push(fp("n", "Int", vec![("x", "Int", None)]));
            push(x);
        }
        for (fi, fd) in t.fields.iter().enumerate() {
            // D4 change a field's type
            for ty in type_variants(&fd.ty) {
                let mut x = d.clone();
                x.types[ti].fields[fi].ty = ty;
                push(x);
            }
            // D5 change a field's parameters
            {
                let mut x = d.clone();
                x.types[ti].fields[fi].params.push(PDef { name: "y".into(), ty: "Int".into(), default: None });
                push(x);
            }
            for (pi, p) in fd.params.iter().enumerate() {
                let mut x = d.clone();
                x.types[ti].fields[fi].params.remove(pi);
                push(x);
                for ty in type_variants(&p.ty) {
                    let mut x = d.clone();
                    x.types[ti].fields[fi].params[pi].ty = ty;
                    push(x);
                }
                for def in [None, Some("\"s\""), Some("null"), Some("2")] {
                    let def = def.map(|s| s.to_string());
                    if def != p.default {
                        let mut x = d.clone();
                        x.types[ti].fields[fi].params[pi].default = def;
                        push(x);
                    }
                }
            }
            // D6 remove a field
            if t.fields.len() > 1 {
                let mut x = d.clone();
                x.types[ti].fields.remove(fi);
                push(x);
            }
        }
        // D10 remove a type definition
        let mut x = d.clone();
        x.types.remove(ti);
        push(x);
        // flip object <-> interface
        let mut x = d.clone();
        x.types[ti].interface = !t.interface;
        push(x);
    }
    // D7 schema blocks
    {
        let mut x = d.clone();
        x.schema_blocks.clear();
        push(x);
        let mut x = d.clone();
        x.schema_blocks.push("query: Q".into());
        push(x);
        for b in ["query: Undef", "query: A", "query: B", "mutation: Q", "query: Q\n  mutation: B"] {
            let mut x = d.clone();
            x.schema_blocks = vec![b.into()];
            push(x);
        }
    }
    // D8 scalars
    for s in ["Custom", "Int", "A"] {
        let mut x = d.clone();
        x.scalars.push(s.into());
        push(x);
    }
    // D9 directive definitions
    {
        for k in [0usize, 5] {
            if d.directives.len() > k {
                let mut x = d.clone();
                x.directives.remove(k);
                push(x);
            }
        }
        let mut x = d.clone();
        x.directives.push(STANDARD_DIRECTIVES[3].to_string());
        push(x);
        let mut x = d.clone();
        x.directives.push("directive @foo(a: Int = 1) on FIELD".into());
        push(x);
        let mut x = d.clone();
        x.directives.clear();
        push(x);
    }
    out
}

pub fn enumerate(seeds: &[SDoc], k: usize) -> Vec<Vec<SDoc>> {
    let mut seen: HashSet<String> = HashSet::new();
    let mut layers = vec![];
    let mut cur: Vec<SDoc> = vec![];
    for s in seeds {
        if seen.insert(s.text()) {
            cur.push(s.clone());
        }
    }
    layers.push(cur.clone());
    for _ in 0..k {
        let mut next = vec![];
        for d in &cur {
            for x in deviations(d) {
                if seen.insert(x.text()) {
                    next.push(x);
                }
            }
        }
        layers.push(next.clone());
        cur = next;
    }
    layers
}

// ---------------------------------------------------------------------------------------------
// Independent validator of the documented rules

#[derive(Clone, Debug, PartialEq, Eq)]
pub enum Verdict {
    Valid,
    /// violates at least one documented rule (listed)
    Invalid(Vec<String>),
    /// no documented rule is violated, but the document uses something the documented rules say
    /// nothing about (listed): acceptance is unspecified, only "no panic" is checked
    Unspecified(Vec<String>),
}

#[derive(Clone, Debug, PartialEq)]
enum Ty {
    Named(String, bool),
    List(Box<Ty>, bool),
}

fn parse_ty(s: &str) -> Ty {
    let (body, nn) = match s.strip_suffix('!') {
        Some(b) => (b, true),
        None => (s, false),
    };
    if body.starts_with('[') && body.ends_with(']') {
        Ty::List(Box::new(parse_ty(&body[1..body.len() - 1])), !nn)
    } else {
        Ty::Named(body.to_string(), !nn)
    }
}

impl Ty {
    fn base(&self) -> &str {
        match self {
            Ty::Named(n, _) => n,
            Ty::List(i, _) => i.base(),
        }
    }
    fn nullable(&self) -> bool {
        match self {
            Ty::Named(_, n) | Ty::List(_, n) => *n,
        }
    }
    fn depth(&self) -> usize {
        match self {
            Ty::Named(..) => 0,
            Ty::List(i, _) => 1 + i.depth(),
        }
    }
}

const BUILTIN: [&str; 5] = ["Int", "Float", "String", "Boolean", "ID"];

/// Does the literal `lit` fit parameter type `t`? None = the literal kind is outside the supported ones.
fn default_fits(t: &Ty, lit: &str) -> Option<bool> {
    let lit = lit.trim();
    if lit == "null" {
        return Some(t.nullable());
    }
    if lit.starts_with('[') {
        let inner = &lit[1..lit.len() - 1];
        return match t {
            Ty::List(it, _) => {
                let mut ok = true;
                for e in inner.split(',').map(|e| e.trim()).filter(|e| !e.is_empty()) {
                    ok &= default_fits(it, e)?;
                }
                Some(ok)
            }
            _ => Some(false),
        };
    }
    if lit.starts_with('{') {
        return Some(false); // object literal: no scalar / list type admits it
    }
    let kind = if lit.starts_with('"') {
        "String"
    } else if lit == "true" || lit == "false" {
        "Boolean"
    } else if lit.parse::<i128>().is_ok() {
        "Int"
    } else if lit.parse::<f64>().is_ok() {
        "Float"
    } else {
        return Some(false); // enum literal: no supported type admits it
    };
    match t {
        Ty::Named(n, _) => Some(n == kind),
        Ty::List(..) => Some(false),
    }
}

pub fn validate(d: &SDoc) -> Verdict {
    let mut bad: Vec<String> = vec![];
    let mut unspec: Vec<String> = vec![];

    // definitions
    let mut type_names: BTreeMap<&str, &TDef> = BTreeMap::new();
    for t in &d.types {
        if BUILTIN.contains(&t.name.as_str()) {
            unspec.push(format!("type named like the built-in scalar {}", t.name));
        }
        if type_names.insert(&t.name, t).is_some() {
            unspec.push(format!("duplicate definition of {}", t.name));
        }
    }
    let mut scalar_names = BTreeSet::new();
    for s in &d.scalars {
        if BUILTIN.contains(&s.as_str()) {
            unspec.push(format!("scalar redefines built-in {s}"));
        }
        if !scalar_names.insert(s.as_str()) || type_names.contains_key(s.as_str()) {
            unspec.push(format!("duplicate definition of scalar {s}"));
        }
    }
    let mut dir_names = BTreeSet::new();
    for dd in &d.directives {
        let name = dd.trim_start_matches("directive @").split(|c: char| !c.is_alphanumeric()).next().unwrap_or("");
        if !dir_names.insert(name.to_string()) {
            unspec.push(format!("duplicate directive definition @{name}"));
        }
    }
    // schema block
    if d.schema_blocks.len() != 1 {
        unspec.push(format!("{} schema blocks", d.schema_blocks.len()));
    }
    let mut root: Option<&str> = None;
    if let Some(b) = d.schema_blocks.first() {
        let q = b.lines().map(|l| l.trim()).find_map(|l| l.strip_prefix("query: "));
        match q {
            None => unspec.push("schema block without a query type".into()),
            Some(q) => match type_names.get(q) {
                None => unspec.push(format!("query type {q} is not defined")),
                Some(t) if t.interface => unspec.push(format!("query type {q} is an interface")),
                Some(_) => root = Some(q),
            },
        }
    }
    if !unspec.is_empty() && (root.is_none() || unspec.iter().any(|u| u.starts_with("duplicate definition of") && !u.contains("scalar"))) {
        // without a usable root or with duplicated vertex types the remaining rules have no
        // well-defined reading
        return Verdict::Unspecified(unspec);
    }
    let root = root.unwrap();

    // implements: existence, interface-ness, transitivity, cycles
    let mut graph_ok = true;
    for t in &d.types {
        let set: BTreeSet<&str> = t.implements.iter().map(|s| s.as_str()).collect();
        for i in &set {
            match type_names.get(i) {
                None => {
                    bad.push(format!("{} implements undefined {i}", t.name));
                    graph_ok = false;
                }
                Some(it) if !it.interface => {
                    bad.push(format!("{} implements non-interface {i}", t.name));
                    graph_ok = false;
                }
                Some(it) => {
                    for j in &it.implements {
                        if *j != t.name && !set.contains(j.as_str()) {
                            bad.push(format!("{} implements {i} but not {i}'s interface {j}", t.name));
                        }
                    }
                }
            }
        }
    }
    // cycles (over defined types only)
    {
        fn reaches(types: &BTreeMap<&str, &TDef>, from: &str, to: &str, seen: &mut BTreeSet<String>) -> bool {
            if !seen.insert(from.to_string()) {
                return false;
            }
            match types.get(from) {
                None => false,
                Some(t) => t.implements.iter().any(|i| i == to || reaches(types, i, to, seen)),
            }
        }
        for t in &d.types {
            if reaches(&type_names, &t.name, &t.name, &mut BTreeSet::new()) {
                bad.push(format!("implementation cycle through {}", t.name));
                graph_ok = false;
            }
        }
    }

    // fields
    for t in &d.types {
        if t.name.starts_with("__") {
            bad.push(format!("reserved type name {}", t.name));
        }
        let mut seen_f = BTreeSet::new();
        for fd in &t.fields {
            if !seen_f.insert(fd.name.as_str()) {
                unspec.push(format!("duplicate field {}.{}", t.name, fd.name));
            }
            if fd.name.starts_with("__") {
                bad.push(format!("reserved field name {}.{}", t.name, fd.name));
            }
            let ty = parse_ty(&fd.ty);
            if ty.depth() > 30 {
                unspec.push(format!("{}.{} has list depth {}", t.name, fd.name, ty.depth()));
                continue;
            }
            let base = ty.base();
            if BUILTIN.contains(&base) {
                if !fd.params.is_empty() {
                    bad.push(format!("property {}.{} takes parameters", t.name, fd.name));
                }
                if t.name == root {
                    unspec.push(format!("property {} on the root type", fd.name));
                }
            } else if type_names.contains_key(base) {
                if base == root {
                    bad.push(format!("edge {}.{} points to the root type", t.name, fd.name));
                } else {
                    for p in &fd.params {
                        let pt = parse_ty(&p.ty);
                        if !BUILTIN.contains(&pt.base()) {
                            unspec.push(format!("parameter {}.{}({}) has non-built-in type {}", t.name, fd.name, p.name, p.ty));
                        }
                        if let Some(def) = &p.default {
                            match default_fits(&pt, def) {
                                Some(true) => {}
                                Some(false) => bad.push(format!("default {def} of {}.{}({}) does not fit {}", t.name, fd.name, p.name, p.ty)),
                                None => unspec.push(format!("default {def} of unsupported literal kind")),
                            }
                        }
                    }
                    if ty.depth() > 1 {
                        unspec.push(format!("edge {}.{} has a nested list type", t.name, fd.name));
                    }
                }
            } else {
                bad.push(format!("{}.{} has type {} which is neither a built-in scalar nor a defined vertex type", t.name, fd.name, fd.ty));
            }
        }
    }

    // inherited fields: presence, narrowing, parameters
    let implements_decl = |sub: &str, sup: &str| -> bool { sub == sup || type_names.get(sub).map(|t| t.implements.iter().any(|i| i == sup)).unwrap_or(false) };
    fn is_sub(parent: &Ty, child: &Ty, named: &dyn Fn(&str, &str) -> bool) -> bool {
        if !parent.nullable() && child.nullable() {
            return false;
        }
        match (parent, child) {
            (Ty::Named(p, _), Ty::Named(c, _)) => named(p, c),
            (Ty::List(p, _), Ty::List(c, _)) => is_sub(p, c, named),
            _ => false,
        }
    }
    let named_sub = |p: &str, c: &str| -> bool {
        let pv = type_names.contains_key(p);
        let cv = type_names.contains_key(c);
        match (pv, cv) {
            (false, false) => p == c,
            (true, true) => implements_decl(c, p),
            _ => false,
        }
    };
    for t in &d.types {
        for i in &t.implements {
            let Some(it) = type_names.get(i.as_str()) else { continue };
            for pf in &it.fields {
                match t.fields.iter().find(|x| x.name == pf.name) {
                    None => bad.push(format!("{} lacks field {} required by {}", t.name, pf.name, i)),
                    Some(cf) => {
                        let (pt, ct) = (parse_ty(&pf.ty), parse_ty(&cf.ty));
                        if pt.depth() > 30 || ct.depth() > 30 {
                            continue;
                        }
                        if !is_sub(&pt, &ct, &named_sub) {
                            bad.push(format!("{}.{}: {} is not a narrowing of {}.{}: {}", t.name, cf.name, cf.ty, i, pf.name, pf.ty));
                        }
                        let pn: BTreeSet<&str> = pf.params.iter().map(|p| p.name.as_str()).collect();
                        let cn: BTreeSet<&str> = cf.params.iter().map(|p| p.name.as_str()).collect();
                        if pn != cn {
                            bad.push(format!("{}.{} has parameters {:?} but {}.{} has {:?}", t.name, cf.name, cn, i, pf.name, pn));
                        }
                        for cp in &cf.params {
                            if let Some(pp) = pf.params.iter().find(|p| p.name == cp.name) {
                                // parameters are contravariant: the implementer may only widen
                                let (ppt, cpt) = (parse_ty(&pp.ty), parse_ty(&cp.ty));
                                let scalar_only = |p: &str, c: &str| p == c;
                                if !is_sub(&cpt, &ppt, &scalar_only) {
                                    bad.push(format!("parameter {}.{}({}: {}) narrows {}'s {}", t.name, cf.name, cp.name, cp.ty, i, pp.ty));
                                }
                            }
                        }
                    }
                }
            }
        }
    }

    // ambiguous field origins (only meaningful on an acyclic, fully defined implements graph)
    if graph_ok {
        fn origins<'a>(types: &BTreeMap<&'a str, &'a TDef>, t: &'a str, field: &str, depth: usize) -> BTreeSet<String> {
            let td = types[t];
            let mut out = BTreeSet::new();
            if depth < 8 {
                for i in &td.implements {
                    if let Some(it) = types.get(i.as_str()) {
                        if it.fields.iter().any(|x| x.name == field) {
                            out.extend(origins(types, it.name.as_str(), field, depth + 1));
                        }
                    }
                }
            }
            if out.is_empty() {
                out.insert(t.to_string());
            }
            out
        }
        for t in &d.types {
            for fd in &t.fields {
                let o = origins(&type_names, t.name.as_str(), &fd.name, 0);
                if o.len() > 1 {
                    bad.push(format!("{}.{} has ambiguous origin {:?}", t.name, fd.name, o));
                }
            }
        }
    }

    if !bad.is_empty() {
        Verdict::Invalid(bad)
    } else if !unspec.is_empty() {
        Verdict::Unspecified(unspec)
    } else {
        Verdict::Valid
    }
}
