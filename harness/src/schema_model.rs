//! An independent, minimal model of a Trustfall schema document, built straight from the
//! GraphQL parser's AST (never from `trustfall_core::schema::Schema`). Oracles read this model.

use std::collections::{BTreeMap, BTreeSet};

use async_graphql_parser::types as gt;
use async_graphql_value::ConstValue;
use trustfall_core::ir::FieldValue as FV;

use crate::values;

#[derive(Clone, Debug, PartialEq, Eq, PartialOrd, Ord)]
pub enum TyRef {
    Named(String, bool),      // (name, nullable)
    List(Box<TyRef>, bool),   // (inner, nullable)
}

impl TyRef {
    pub fn from_ast(t: &gt::Type) -> TyRef {
        match &t.base {
            gt::BaseType::Named(n) => TyRef::Named(n.to_string(), t.nullable),
            gt::BaseType::List(inner) => TyRef::List(Box::new(TyRef::from_ast(inner)), t.nullable),
        }
    }
    pub fn parse(s: &str) -> TyRef {
        TyRef::from_ast(&gt::Type::new(s).expect("bad type text"))
    }
    pub fn base(&self) -> &str {
        match self {
            TyRef::Named(n, _) => n,
            TyRef::List(i, _) => i.base(),
        }
    }
    pub fn nullable(&self) -> bool {
        match self {
            TyRef::Named(_, n) | TyRef::List(_, n) => *n,
        }
    }
    pub fn with_nullable(&self, n: bool) -> TyRef {
        match self {
            TyRef::Named(a, _) => TyRef::Named(a.clone(), n),
            TyRef::List(a, _) => TyRef::List(a.clone(), n),
        }
    }
    pub fn is_list(&self) -> bool {
        matches!(self, TyRef::List(..))
    }
    pub fn elem(&self) -> Option<&TyRef> {
        match self {
            TyRef::List(i, _) => Some(i),
            _ => None,
        }
    }
    pub fn depth(&self) -> usize {
        match self {
            TyRef::Named(..) => 0,
            TyRef::List(i, _) => 1 + i.depth(),
        }
    }
    pub fn text(&self) -> String {
        match self {
            TyRef::Named(n, nl) => format!("{n}{}", if *nl { "" } else { "!" }),
            TyRef::List(i, nl) => format!("[{}]{}", i.text(), if *nl { "" } else { "!" }),
        }
    }
    /// Independent "value fits type" (used by C12, C13, C21).
    pub fn fits(&self, v: &FV) -> bool {
        match (self, v) {
            (_, FV::Null) => self.nullable(),
            (TyRef::Named(n, _), FV::Int64(_) | FV::Uint64(_)) => n == "Int",
            (TyRef::Named(n, _), FV::Float64(_)) => n == "Float",
            (TyRef::Named(n, _), FV::String(_)) => n == "String",
            (TyRef::Named(n, _), FV::Boolean(_)) => n == "Boolean",
            (TyRef::List(inner, _), FV::List(xs)) => xs.iter().all(|x| inner.fits(x)),
            _ => false,
        }
    }
    /// Greatest common subtype on scalars/lists (same base and shape; nullable only if both).
    pub fn meet(&self, other: &TyRef) -> Option<TyRef> {
        match (self, other) {
            (TyRef::Named(a, x), TyRef::Named(b, y)) if a == b => Some(TyRef::Named(a.clone(), *x && *y)),
            (TyRef::List(a, x), TyRef::List(b, y)) => Some(TyRef::List(Box::new(a.meet(b)?), *x && *y)),
            _ => None,
        }
    }
    pub fn list_of(inner: TyRef, nullable: bool) -> TyRef {
        TyRef::List(Box::new(inner), nullable)
    }
}

#[derive(Clone, Debug)]
pub struct ParamModel {
    pub name: String,
    pub ty: TyRef,
    pub default: Option<FV>,
}

#[derive(Clone, Debug)]
pub struct FieldModel {
    pub name: String,
    pub ty: TyRef,
    pub params: Vec<ParamModel>,
}

#[derive(Clone, Debug)]
pub struct TypeModel {
    pub name: String,
    pub is_interface: bool,
    pub implements: Vec<String>,
    pub fields: Vec<FieldModel>,
}

impl TypeModel {
    pub fn field(&self, name: &str) -> Option<&FieldModel> {
        self.fields.iter().find(|f| f.name == name)
    }
}

#[derive(Clone, Debug)]
pub struct SchemaModel {
    pub text: String,
    pub root: String,
    pub types: BTreeMap<String, TypeModel>,
    pub scalars: BTreeSet<String>,
}

pub const BUILTIN_SCALARS: [&str; 5] = ["Int", "Float", "String", "Boolean", "ID"];

pub fn const_to_fv(v: &ConstValue) -> FV {
    match v {
        ConstValue::Null => FV::Null,
        ConstValue::Number(n) => {
            if let Some(i) = n.as_i64() {
                FV::Int64(i)
            } else if let Some(u) = n.as_u64() {
                FV::Uint64(u)
            } else {
                FV::Float64(n.as_f64().unwrap())
            }
        }
        ConstValue::String(s) => values::s(s),
        ConstValue::Boolean(b) => FV::Boolean(*b),
        ConstValue::List(xs) => values::list(xs.iter().map(const_to_fv).collect()),
        ConstValue::Enum(e) => FV::Enum(e.as_str().into()),
        _ => FV::Null,
    }
}

impl SchemaModel {
    pub fn parse(text: &str) -> SchemaModel {
        let doc = async_graphql_parser::parse_schema(text).expect("schema text must be syntactically valid");
        let mut root = String::new();
        let mut types = BTreeMap::new();
        let mut scalars = BTreeSet::new();
        for def in &doc.definitions {
            match def {
                gt::TypeSystemDefinition::Schema(s) => {
                    if let Some(q) = &s.node.query {
                        root = q.node.to_string();
                    }
                }
                gt::TypeSystemDefinition::Type(t) => {
                    let name = t.node.name.node.to_string();
                    let (is_interface, implements, fields) = match &t.node.kind {
                        gt::TypeKind::Object(o) => (false, &o.implements, &o.fields),
                        gt::TypeKind::Interface(i) => (true, &i.implements, &i.fields),
                        gt::TypeKind::Scalar => {
                            scalars.insert(name);
                            continue;
                        }
                        _ => continue,
                    };
                    let fields = fields
                        .iter()
                        .map(|f| FieldModel {
                            name: f.node.name.node.to_string(),
                            ty: TyRef::from_ast(&f.node.ty.node),
                            params: f
                                .node
                                .arguments
                                .iter()
                                .map(|a| ParamModel {
                                    name: a.node.name.node.to_string(),
                                    ty: TyRef::from_ast(&a.node.ty.node),
                                    default: a.node.default_value.as_ref().map(|d| const_to_fv(&d.node)),
                                })
                                .collect(),
                        })
                        .collect();
                    types.insert(
                        name.clone(),
                        TypeModel { name, is_interface, implements: implements.iter().map(|i| i.node.to_string()).collect(), fields },
                    );
                }
                _ => {}
            }
        }
        SchemaModel { text: text.to_string(), root, types, scalars }
    }

    pub fn is_vertex_type(&self, name: &str) -> bool {
        name != self.root && self.types.contains_key(name)
    }

    pub fn root_type(&self) -> &TypeModel {
        &self.types[&self.root]
    }

    pub fn field(&self, ty: &str, field: &str) -> Option<&FieldModel> {
        self.types.get(ty)?.field(field)
    }

    pub fn is_edge(&self, f: &FieldModel) -> bool {
        self.is_vertex_type(f.ty.base())
    }

    /// All supertypes of `ty` (transitively), excluding itself.
    pub fn supertypes(&self, ty: &str) -> BTreeSet<String> {
        let mut out = BTreeSet::new();
        let mut stack = vec![ty.to_string()];
        while let Some(t) = stack.pop() {
            if let Some(tm) = self.types.get(&t) {
                for i in &tm.implements {
                    if out.insert(i.clone()) {
                        stack.push(i.clone());
                    }
                }
            }
        }
        out
    }

    /// `concrete` (a dataset vertex type) is an instance of `ty`.
    pub fn instance_of(&self, concrete: &str, ty: &str) -> bool {
        concrete == ty || self.supertypes(concrete).contains(ty)
    }

    pub fn concrete_types(&self) -> Vec<&TypeModel> {
        self.types.values().filter(|t| !t.is_interface && t.name != self.root).collect()
    }

    /// Edge parameters the engine must hand to the adapter: explicit value, else the declared
    /// default, else null (only legal when the parameter is nullable).
    pub fn complete_params(&self, field: &FieldModel, explicit: &BTreeMap<String, FV>) -> BTreeMap<String, FV> {
        field
            .params
            .iter()
            .map(|p| {
                let v = explicit.get(&p.name).cloned().or_else(|| p.default.clone()).unwrap_or(FV::Null);
                (p.name.clone(), v)
            })
            .collect()
    }
}
