//! Value alphabets and the *reference* equality / order used by oracles.
//! Nothing here calls into the engine's comparison code: integers go through i128.

use std::{cmp::Ordering, sync::Arc};

use serde_json::{json, Value};
use trustfall_core::ir::FieldValue as FV;

pub fn s(x: &str) -> FV {
    FV::String(Arc::from(x))
}
pub fn list(xs: Vec<FV>) -> FV {
    FV::List(Arc::from(xs))
}
pub fn i(x: i64) -> FV {
    FV::Int64(x)
}
pub fn u(x: u64) -> FV {
    FV::Uint64(x)
}

pub fn int_of(v: &FV) -> Option<i128> {
    match v {
        FV::Int64(x) => Some(*x as i128),
        FV::Uint64(x) => Some(*x as i128),
        _ => None,
    }
}

/// Kind tag used only to decide "same kind" (ints of both representations are one kind).
#[derive(Clone, Copy, PartialEq, Eq, Debug, PartialOrd, Ord, Hash)]
pub enum Kind {
    Null,
    Int,
    Float,
    Str,
    Bool,
    Enum,
    List,
}

pub fn kind(v: &FV) -> Kind {
    match v {
        FV::Null => Kind::Null,
        FV::Int64(_) | FV::Uint64(_) => Kind::Int,
        FV::Float64(_) => Kind::Float,
        FV::String(_) => Kind::Str,
        FV::Boolean(_) => Kind::Bool,
        FV::Enum(_) => Kind::Enum,
        FV::List(_) => Kind::List,
        _ => unreachable!("non_exhaustive FieldValue variant"),
    }
}

/// Reference equality: null-safe, integers by numeric value, lists element-wise.
pub fn ref_eq(a: &FV, b: &FV) -> bool {
    match (a, b) {
        (FV::Null, FV::Null) => true,
        (FV::Float64(x), FV::Float64(y)) => x == y,
        (FV::String(x), FV::String(y)) => x == y,
        (FV::Boolean(x), FV::Boolean(y)) => x == y,
        (FV::Enum(x), FV::Enum(y)) => x == y,
        (FV::List(x), FV::List(y)) => x.len() == y.len() && x.iter().zip(y.iter()).all(|(p, q)| ref_eq(p, q)),
        _ => match (int_of(a), int_of(b)) {
            (Some(x), Some(y)) => x == y,
            _ => false,
        },
    }
}

/// Reference order for values of the same orderable kind (ints, floats, strings, and lists
/// of those lexicographically). `None` when either side is null or kinds differ.
pub fn ref_cmp(a: &FV, b: &FV) -> Option<Ordering> {
    match (a, b) {
        (FV::Null, _) | (_, FV::Null) => None,
        (FV::Float64(x), FV::Float64(y)) => x.partial_cmp(y),
        (FV::String(x), FV::String(y)) => Some(x.as_ref().cmp(y.as_ref())),
        (FV::Boolean(x), FV::Boolean(y)) => Some(x.cmp(y)),
        (FV::List(x), FV::List(y)) => {
            for (p, q) in x.iter().zip(y.iter()) {
                match ref_cmp(p, q)? {
                    Ordering::Equal => {}
                    o => return Some(o),
                }
            }
            Some(x.len().cmp(&y.len()))
        }
        _ => match (int_of(a), int_of(b)) {
            (Some(x), Some(y)) => Some(x.cmp(&y)),
            _ => None,
        },
    }
}

pub fn ints() -> Vec<FV> {
    vec![
        i(i64::MIN),
        i(-1),
        i(0),
        i(1),
        i(2),
        i(i64::MAX),
        u(0),
        u(1),
        u(2),
        u(i64::MAX as u64),
        u(i64::MAX as u64 + 1),
        u(u64::MAX),
    ]
}

pub fn floats() -> Vec<FV> {
    vec![
        FV::Float64(-1.5),
        FV::Float64(-0.0),
        FV::Float64(0.0),
        FV::Float64(1.5),
        FV::Float64(f64::MAX),
        FV::Float64(f64::MIN_POSITIVE),
    ]
}

pub fn strings() -> Vec<FV> {
    vec![s(""), s("a"), s("ab"), s("b"), s("é")]
}

pub fn bools() -> Vec<FV> {
    vec![FV::Boolean(false), FV::Boolean(true)]
}

pub fn enums() -> Vec<FV> {
    vec![FV::Enum(Arc::from("a")), FV::Enum(Arc::from("b"))]
}

/// Scalars of one kind (used to build homogeneous lists).
pub fn scalars_by_kind() -> Vec<(Kind, Vec<FV>)> {
    vec![(Kind::Int, ints()), (Kind::Float, floats()), (Kind::Str, strings()), (Kind::Bool, bools())]
}

/// Lists of up to `max_len` elements over `base` plus null elements.
pub fn lists_over(base: &[FV], max_len: usize, with_null_elems: bool) -> Vec<FV> {
    let mut elems: Vec<FV> = base.to_vec();
    if with_null_elems {
        elems.push(FV::Null);
    }
    let mut out = vec![list(vec![])];
    let mut layer: Vec<Vec<FV>> = vec![vec![]];
    for _ in 0..max_len {
        let mut next = vec![];
        for p in &layer {
            for e in &elems {
                let mut q = p.clone();
                q.push(e.clone());
                next.push(q);
            }
        }
        out.extend(next.iter().cloned().map(list));
        layer = next;
    }
    out
}

/// JSON rendering that keeps the integer representation visible (for samples and replays).
pub fn show(v: &FV) -> Value {
    match v {
        FV::Null => Value::Null,
        FV::Int64(x) => json!({"i64": x.to_string()}),
        FV::Uint64(x) => json!({"u64": x.to_string()}),
        FV::Float64(x) => json!({"f64": format!("{x:?}")}),
        FV::String(x) => json!(x.as_ref()),
        FV::Boolean(x) => json!(x),
        FV::Enum(x) => json!({"enum": x.as_ref()}),
        FV::List(x) => Value::Array(x.iter().map(show).collect()),
        _ => json!("<unknown>"),
    }
}

/// Inverse of `show`, for replay files.
pub fn unshow(v: &Value) -> FV {
    match v {
        Value::Null => FV::Null,
        Value::Bool(b) => FV::Boolean(*b),
        Value::String(x) => s(x),
        Value::Array(xs) => list(xs.iter().map(unshow).collect()),
        Value::Object(m) => {
            if let Some(x) = m.get("i64") {
                FV::Int64(x.as_str().unwrap().parse().unwrap())
            } else if let Some(x) = m.get("u64") {
                FV::Uint64(x.as_str().unwrap().parse().unwrap())
            } else if let Some(x) = m.get("f64") {
                FV::Float64(x.as_str().unwrap().parse().unwrap())
            } else if let Some(x) = m.get("enum") {
                FV::Enum(Arc::from(x.as_str().unwrap()))
            } else {
                panic!("bad value json {v}")
            }
        }
        Value::Number(n) => {
            if let Some(x) = n.as_i64() {
                FV::Int64(x)
            } else if let Some(x) = n.as_u64() {
                FV::Uint64(x)
            } else {
                FV::Float64(n.as_f64().unwrap())
            }
        }
    }
}

/// A canonical string for multiset comparison of rows: integers print by numeric value so
/// that Int64(1) and Uint64(1) are the same output value (the engine documents them equal).
pub fn canon(v: &FV) -> String {
    match v {
        FV::Null => "null".into(),
        FV::Int64(x) => format!("{x}"),
        FV::Uint64(x) => format!("{x}"),
        FV::Float64(x) => format!("f{x:?}"),
        FV::String(x) => format!("{:?}", x.as_ref()),
        FV::Boolean(x) => format!("{x}"),
        FV::Enum(x) => format!("e{:?}", x.as_ref()),
        FV::List(x) => format!("[{}]", x.iter().map(canon).collect::<Vec<_>>().join(",")),
        _ => "<unknown>".into(),
    }
}
