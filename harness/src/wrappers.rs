//! Adapter wrappers, generic over the inner adapter.
//! `Probed` reports every resolver call (and every context flowing into it) to a `Probe`.

use std::{fmt::Debug, rc::Rc, sync::Arc};

use trustfall_core::{
    interpreter::{Adapter, AsVertex, ContextIterator, ContextOutcomeIterator, ResolveEdgeInfo, ResolveInfo, VertexIterator},
    ir::{EdgeParameters, FieldValue as FV},
};

#[derive(Clone, Copy, Debug, PartialEq, Eq, PartialOrd, Ord)]
pub enum CallKind {
    Start,
    Property,
    Neighbors,
    Coercion,
}

/// Callbacks; all default to no-ops. `call` is the index of the resolver call (0-based, in call order).
#[allow(unused_variables)]
pub trait Probe<Vx> {
    fn on_start(&self, call: usize, edge: &str, params: &EdgeParameters, info: &ResolveInfo) {}
    fn on_property(&self, call: usize, ty: &str, prop: &str, info: &ResolveInfo) {}
    fn on_neighbors(&self, call: usize, ty: &str, edge: &str, params: &EdgeParameters, info: &ResolveEdgeInfo) {}
    fn on_coercion(&self, call: usize, ty: &str, to: &str, info: &ResolveInfo) {}
    /// a context entered resolver call `call` with this active vertex
    fn on_input(&self, call: usize, kind: CallKind, ty: &str, field: &str, vertex: Option<&Vx>) {}
    /// a starting vertex was pulled from `resolve_starting_vertices`' iterator
    fn on_start_pull(&self, vertex: &Vx) {}
}

pub struct Probed<A, P> {
    pub inner: A,
    pub probe: Rc<P>,
    calls: std::cell::Cell<usize>,
}

impl<A, P> Probed<A, P> {
    pub fn new(inner: A, probe: Rc<P>) -> Self {
        Probed { inner, probe, calls: std::cell::Cell::new(0) }
    }
    fn next_call(&self) -> usize {
        let c = self.calls.get();
        self.calls.set(c + 1);
        c
    }
}

impl<A, P> Adapter<'static> for Probed<A, P>
where
    A: Adapter<'static> + 'static,
    A::Vertex: Clone + Debug + 'static,
    P: Probe<A::Vertex> + 'static,
{
    type Vertex = A::Vertex;

    fn resolve_starting_vertices(&self, edge_name: &Arc<str>, parameters: &EdgeParameters, info: &ResolveInfo) -> VertexIterator<'static, Self::Vertex> {
        let call = self.next_call();
        self.probe.on_start(call, edge_name, parameters, info);
        let probe = self.probe.clone();
        Box::new(self.inner.resolve_starting_vertices(edge_name, parameters, info).inspect(move |v| probe.on_start_pull(v)))
    }

    fn resolve_property<X: AsVertex<Self::Vertex> + 'static>(
        &self,
        contexts: ContextIterator<'static, X>,
        type_name: &Arc<str>,
        property_name: &Arc<str>,
        info: &ResolveInfo,
    ) -> ContextOutcomeIterator<'static, X, FV> {
        let call = self.next_call();
        self.probe.on_property(call, type_name, property_name, info);
        let probe = self.probe.clone();
        let (ty, f) = (type_name.clone(), property_name.clone());
        let contexts: ContextIterator<'static, X> = Box::new(contexts.inspect(move |c| probe.on_input(call, CallKind::Property, &ty, &f, c.active_vertex::<Self::Vertex>())));
        self.inner.resolve_property(contexts, type_name, property_name, info)
    }

    fn resolve_neighbors<X: AsVertex<Self::Vertex> + 'static>(
        &self,
        contexts: ContextIterator<'static, X>,
        type_name: &Arc<str>,
        edge_name: &Arc<str>,
        parameters: &EdgeParameters,
        info: &ResolveEdgeInfo,
    ) -> ContextOutcomeIterator<'static, X, VertexIterator<'static, Self::Vertex>> {
        let call = self.next_call();
        self.probe.on_neighbors(call, type_name, edge_name, parameters, info);
        let probe = self.probe.clone();
        let (ty, f) = (type_name.clone(), edge_name.clone());
        let contexts: ContextIterator<'static, X> = Box::new(contexts.inspect(move |c| probe.on_input(call, CallKind::Neighbors, &ty, &f, c.active_vertex::<Self::Vertex>())));
        self.inner.resolve_neighbors(contexts, type_name, edge_name, parameters, info)
    }

    fn resolve_coercion<X: AsVertex<Self::Vertex> + 'static>(
        &self,
        contexts: ContextIterator<'static, X>,
        type_name: &Arc<str>,
        coerce_to_type: &Arc<str>,
        info: &ResolveInfo,
    ) -> ContextOutcomeIterator<'static, X, bool> {
        let call = self.next_call();
        self.probe.on_coercion(call, type_name, coerce_to_type, info);
        let probe = self.probe.clone();
        let (ty, f) = (type_name.clone(), coerce_to_type.clone());
        let contexts: ContextIterator<'static, X> = Box::new(contexts.inspect(move |c| probe.on_input(call, CallKind::Coercion, &ty, &f, c.active_vertex::<Self::Vertex>())));
        self.inner.resolve_coercion(contexts, type_name, coerce_to_type, info)
    }
}
