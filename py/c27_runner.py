#!/usr/bin/env python3
"""C27 runner: executes the exported cases through the Python bindings over a Python adapter that
mirrors the harness's Rust GraphAdapter (same JSON dataset, same edge rules), and prints the encoded
results. usage: c27_runner.py <package-parent-dir> <cases.json> <results.json>"""
import json, struct, sys, math

pkg_parent, cases_path, out_path = sys.argv[1], sys.argv[2], sys.argv[3]
sys.path.insert(0, pkg_parent)
import trustfall  # noqa: E402
from trustfall import Adapter, Schema, execute_query  # noqa: E402


def dec(v):
    """exported value -> Python value"""
    if v is None:
        return None
    if isinstance(v, list):
        return [dec(x) for x in v]
    if "b" in v:
        return bool(v["b"])
    if "i" in v:
        return int(v["i"])
    if "f" in v:
        return struct.unpack(">d", bytes.fromhex(v["f"]))[0]
    if "s" in v:
        return v["s"]
    if "py" in v:
        k = v["py"]
        return {
            "nan": float("nan"), "inf": float("inf"), "-inf": float("-inf"), "2**64": 2 ** 64, "-2**63-1": -(2 ** 63) - 1,
            "dict": {"a": 1}, "bytes": b"ab", "tuple": (1, 2), "set": {1}, "mixedlist": [1, "a"], "mixedlist2": [None, 1.5, 2],
            "nestedmixed": [[1], ["a"]], "object": object(), "complex": 1j, "list_with_nan": [1.0, float("nan")], "boolintlist": [True, 1],
        }[k]
    raise ValueError(f"bad exported value {v!r}")


def enc(x):
    """Python value -> type-strict encoding (True is not 1, 1 is not 1.0)"""
    if x is None:
        return None
    if isinstance(x, bool):
        return {"b": x}
    if isinstance(x, int):
        return {"i": str(x)}
    if isinstance(x, float):
        return {"f": struct.pack(">d", x).hex()}
    if isinstance(x, str):
        return {"s": x}
    if isinstance(x, list):
        return [enc(y) for y in x]
    return {"unexpected": repr(type(x))}


def ref_cmp_ge(a, b):
    """numeric / string >=, false when either side is None or kinds differ"""
    if a is None or b is None or isinstance(a, bool) or isinstance(b, bool):
        return False
    if isinstance(a, (int, float)) and isinstance(b, (int, float)):
        return a >= b
    if isinstance(a, str) and isinstance(b, str):
        return a >= b
    return False


def ref_eq(a, b):
    if a is None or b is None:
        return a is None and b is None
    if isinstance(a, bool) != isinstance(b, bool):
        return False
    return a == b


class GraphAdapter(Adapter):
    def __init__(self, world, ds):
        self.types = world["types"]          # name -> {"implements": [...], "fields": {name: {"base":, "list":}}}
        self.root = world["root"]
        self.sverif = world["sverif_rules"]
        self.vs = ds["vertices"]             # [{"type":, "props": {name: encoded}}]
        self.es = ds["edges"]                # [[from, name, to]]
        self.param_log = []

    def supertypes(self, t):
        out, stack = set(), [t]
        while stack:
            x = stack.pop()
            for i in self.types.get(x, {}).get("implements", []):
                if i not in out:
                    out.add(i)
                    stack.append(i)
        return out

    def instance_of(self, v, ty):
        c = self.vs[v]["type"]
        return c == ty or ty in self.supertypes(c)

    def prop(self, v, name):
        if name == "__typename":
            return self.vs[v]["type"]
        return dec(self.vs[v]["props"].get(name))

    def out(self, v, name):
        return [t for (f, n, t) in self.es if f == v and n == name]

    def resolve_starting_vertices(self, edge_name, parameters, *args, **kwargs):
        self.param_log.append([edge_name, {k: enc(parameters[k]) for k in sorted(parameters)}])
        field = self.types[self.root]["fields"][edge_name]
        out = [v for v in range(len(self.vs)) if self.instance_of(v, field["base"])]
        if self.sverif and edge_name == "V":
            mn, only = parameters.get("min"), parameters.get("only")
            out = [v for v in out if (mn is None or ref_cmp_ge(self.prop(v, "id"), mn)) and (only is None or ref_eq(self.prop(v, "s"), only))]
        if not field["list"]:
            out = out[:1]
        return iter(out)

    def resolve_property(self, contexts, type_name, property_name, *args, **kwargs):
        for ctx in contexts:
            v = ctx.active_vertex
            yield ctx, (None if v is None else self.prop(v, property_name))

    def resolve_neighbors(self, contexts, type_name, edge_name, parameters, *args, **kwargs):
        self.param_log.append([edge_name, {k: enc(parameters[k]) for k in sorted(parameters)}])
        for ctx in contexts:
            v = ctx.active_vertex
            if v is None:
                yield ctx, iter(())
            elif self.sverif and edge_name == "nb":
                mn, tag = parameters.get("min"), parameters.get("tag")
                ns = [t for t in self.out(v, "next") if ref_cmp_ge(self.prop(t, "n"), mn) and (tag is None or ref_eq(self.prop(t, "s"), tag))]
                yield ctx, iter(ns)
            elif self.sverif and edge_name == "req":
                k, lim = parameters.get("k"), parameters.get("lim")
                yield ctx, iter([t for t in self.out(v, "next") if ref_cmp_ge(self.prop(t, "id"), k) and (lim is None or ref_cmp_ge(lim, self.prop(t, "id")))])
            elif self.sverif and edge_name == "opt":
                x, y = parameters.get("x"), parameters.get("y")
                yield ctx, iter([t for t in self.out(v, "next") if (x is None or ref_cmp_ge(self.prop(t, "id"), x)) and (y is None or ref_eq(self.prop(t, "s"), y))])
            else:
                yield ctx, iter(self.out(v, edge_name))

    def resolve_coercion(self, contexts, type_name, coerce_to_type, *args, **kwargs):
        for ctx in contexts:
            v = ctx.active_vertex
            yield ctx, (False if v is None else self.instance_of(v, coerce_to_type))


def main():
    data = json.load(open(cases_path))
    schema = Schema(data["schema_text"])
    world = data["world"]
    datasets = data["datasets"]
    results = []
    for case in data["cases"]:
        ds = datasets[case["dataset"]]
        adapter = GraphAdapter(world, ds)
        res = {"id": case["id"]}
        try:
            args = {k: dec(v) for k, v in case["arguments"].items()}
            rows = list(execute_query(adapter, schema, case["query"], args))
            res["rows"] = [{k: enc(v) for k, v in sorted(r.items())} for r in rows]
            res["params"] = adapter.param_log
        except BaseException as e:  # noqa: BLE001 - the kind of error is part of the observation
            res["error"] = type(e).__name__
            res["message"] = str(e)[:300]
        results.append(res)
    json.dump({"python": sys.version, "results": results}, open(out_path, "w"))


if __name__ == "__main__":
    main()
