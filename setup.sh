#!/bin/bash
# setup_cmd: build the harness offline from files on disk only.
set -e
cd "$(dirname "$0")/harness"
export CARGO_NET_OFFLINE=true
cargo build --release --offline
gcc -shared -fPIC -O2 -o /verif/.target/getrandom_shim.so /verif/harness/shim/getrandom_shim.c
( cd /repo && CARGO_TARGET_DIR=/verif/.target/py cargo build -p pytrustfall --offline )
# C26: warm the scratch-workspace target dir (trustfall built for type-checking generated stubs)
W="$(mktemp -d)"; mkdir -p "$W/src"; echo "" > "$W/src/lib.rs"
printf '[package]\nname = "c26_warm"\nversion = "0.1.0"\nedition = "2021"\npublish = false\n\n[dependencies]\ntrustfall = { path = "/repo/trustfall" }\n\n[workspace]\n' > "$W/Cargo.toml"
cp /repo/Cargo.lock "$W/Cargo.lock"
( cd "$W" && CARGO_TARGET_DIR=/verif/.target/c26 cargo check --tests --offline -q ) || true
rm -rf "$W"
