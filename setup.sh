#!/bin/bash
# setup_cmd: build the harness offline from files on disk only.
set -e
cd "$(dirname "$0")/harness"
export CARGO_NET_OFFLINE=true
cargo build --release --offline
