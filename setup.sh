#!/bin/bash
# setup_cmd: build the harness offline from files on disk only.
set -e
cd "$(dirname "$0")/harness"
export CARGO_NET_OFFLINE=true
cargo build --release --offline
gcc -shared -fPIC -O2 -o /verif/.target/getrandom_shim.so /verif/harness/shim/getrandom_shim.c
( cd /repo && CARGO_TARGET_DIR=/verif/.target/py cargo build -p pytrustfall --offline )
