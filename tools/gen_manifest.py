#!/usr/bin/env python3
"""Regenerates /verif/MANIFEST.json from the table below (single source of truth for the
per-property claims). Run after adding or changing a check."""
import json, subprocess

ALL = [f"C{i:02d}" for i in range(1, 28)]

# id -> (category, technique, level text, level note, design ref)
CHECKS = {
    "C01": ("exploration",
            "bounded-exhaustive program-space enumeration (all queries within k deviations of the skeletons x curated datasets x argument domains), each executed on the real engine and compared with an independent reference evaluator",
            "Every query reachable from 5 skeletons by <= 2 (quick) / <= 3 (thorough) deviations from the menu of DESIGN.md 3.3 that the real frontend accepts is executed over 10 curated graphs and every argument map of the per-variable domains; the engine's row multiset must equal the reference evaluator's (Appendix A), and every edge-parameter map the adapter receives must be explicit / declared default / null. Exhaustive within the deviation bound; if the wall-clock cap cuts the last layer the evidence says so.",
            "Trusted: the reference evaluator (600 lines, DESIGN.md Appendix A/B), the generic graph adapter, datasets of <= 7 vertices. Larger queries / datasets are outside the bound.",
            "DESIGN.md §4 C01"),
    "C02": ("model_checking",
            "stateless environment-choice exploration: every pre-fetch schedule with <= d deviations of an order-preserving batching wrapper, each schedule executed on the real engine and compared with the default schedule",
            "For ~230 programs (12 hand-written to reach every resolver-call site of execution.rs + one representative per feature signature of the enumerated query space) all read-ahead schedules with <= 2 (quick) / <= 3 (thorough) deviations from 'no read-ahead' are executed; the row sequence must equal the default schedule's and no schedule may panic. Replay-prefix divergence and replay non-determinism are machinery errors.",
            "Read-ahead amounts {0,1,2,all}; FIFO wrapper; programs above 90 choice points stay at d=2 in the thorough tier (listed in evidence).",
            "DESIGN.md §4 C02"),
    "C03": ("model_checking",
            "exhaustive enumeration of consumer-stop points: for every case of the enumerated query space and every prefix length j of its result stream, a fresh execution over a pull-counting lazy adapter",
            "For every (query, dataset, arguments) case within the deviation bound and every j in 0..=rows: the starting-vertex pull counter is 0 before the first next(), at most 1 + the index of the start vertex that owns row j after j rows (ownership from the reference evaluator), and unchanged by dropping the iterator. States = distinct (rows yielded, vertices pulled) pairs; every run is an execution of the real engine.",
            "Strictly lazy adapter; cases whose rows disagree with the reference are left to C01.",
            "DESIGN.md §4 C03"),
    "C04": ("exploration",
            "bounded-exhaustive program-space enumeration x environment choice over which hints the adapter acts on: each case runs on the real engine with a hint-ignoring adapter and with a pruning adapter (all hints; on disagreement one hint at a time, then all-but-the-culprits)",
            "Every (query, dataset, arguments) case of two enumerated spaces (k<=2 with all hint-relevant filter operators; two-edge structures under optional/fold/recurse + one filter/tag deviation, k<=2 thorough) is executed unpruned and pruned: the pruner discards start vertices and neighbours whose properties lie outside statically_required_property / the per-context dynamically_required_property().resolve() candidate, or that lack a mandatory edge with a surviving destination. Row multisets must agree and hint computation must not panic.",
            "Candidate membership by the C06 reference, not Range::contains; mandatory edges one level deep; coerced_to_type() is not acted on (not part of the property). One known finding (`>=` on a tag) is attributed by a narrow predicate and the remaining hints of such cases are re-checked with the culprit ignored.",
            "DESIGN.md §4 C04"),
    "C05": ("exploration",
            "bounded-exhaustive program-space enumeration with an in-adapter monitor: every resolve_property call is checked against ResolveInfo::required_properties()",
            "Every resolve_property call made while executing every accepted query within the deviation bound over five data-rich graphs must name a property listed (once) in the vertex's required_properties() hint.",
            "Calls are observed where data flows; the hint itself depends only on the query.",
            "DESIGN.md §4 C05"),
    "C09": ("exploration",
            "bounded-exhaustive program-space enumeration with widened argument domains; every case executed under catch_unwind with three contract-honouring adapters (lazy, always-pre-fetch-all batcher, hint pruner)",
            "Every frontend-accepted query within the deviation bound (k<=2 quick / k<=3 thorough over the widened operator menu, plus two-edge structures with filter/tag/count deviations) x curated datasets x every argument map of the wide per-variable domains (negative, 0, i64::MIN, u64::MAX, empty and null-containing lists, invalid regex text) that argument validation accepts is run to exhaustion on the real engine with three adapters; any panic located in engine code is a violation.",
            "Adapters used are the harness's generic graph adapter and order-preserving / hint-driven wrappers of it; a panic located in harness code is a machinery error.",
            "DESIGN.md §4 C09"),
    "C10": ("exploration",
            "bounded-exhaustive enumeration of query documents from four generators (token sequences, directive sequences, document shapes, operand-type / deviation-bounded query spaces), each compiled by the real frontend under catch_unwind against two schemas",
            "Every sequence of <= 4 (quick) / <= 6 (thorough) tokens from a 19-token alphabet raw and spliced into 4 positions of a valid query; every sequence of <= 3 / <= 4 directives from a 36-entry menu (well-formed and malformed @filter/@tag/@output/@optional/@fold/@recurse/@transform, unknown directives, duplicated arguments) on a property, an edge and an edge with inner output; ~110 document shapes (0-3 operations, mutation/subscription, variables, fragments, root directives, inline fragments in every position, meta fields, parameter literal kinds, deep nesting); every operator x every property type with variable and tag operands; the k<=2 / k<=3 query space. frontend::parse must return Ok or Err.",
            "'Every query string' is bounded to these grammars over S-verif and numbers; raw bytes are the external parser's domain.",
            "DESIGN.md §4 C10"),
    "C11": ("exploration",
            "bounded-exhaustive program-space enumeration; each accepted query's IR is checked by an independent structural-invariant checker (I1-I9)",
            "Every IR the frontend produces for the enumerated query space (k<=2 quick, k<=3 thorough; ~36k / ~2.5M queries) satisfies: Eid i -> Vid i+1, dense unique ids, one incoming edge per non-root vertex, folds precede their contents and Eids nest as intervals, edges go low->high, tags visible and defined no later than their use, imported_tags = exactly the parent-defined tags used inside the fold (no duplicates), variables recorded with the intersection of their use types and all used, outputs unique and indexed, all names defined in the schema text.",
            "Invariants are the checker's reading of ir/indexed.rs's comment and execution.rs's asserts (listed in DESIGN.md).",
            "DESIGN.md §4 C11"),
    "C12": ("exploration",
            "bounded-exhaustive enumeration: every accepted query with 1..=3 variables x every argument map over {absent, 17-value alphabet} per variable x {no surplus, surplus}; oracle = variable types re-derived from the AST + independent fits()",
            "For every query of the enumerated space (k<=2 quick / k<=3 thorough, widened operator menu) with 1..=3 variables, every argument map over absent / null / ints incl. i64::MIN, u64::MAX / float / strings / bool / Enum / empty, int, null, string, mixed and nested lists per variable, with and without a surplus name, is validated by the real interpret_ir: accepted iff complete, no surplus, every value fits the type the query implies; on refusal the missing / unused / mistyped names are exactly the offending variables; a panic is a violation.",
            "Variable types implied by a query are computed from the AST by the documented operator typing rules (reference::expected_variable_types).",
            "DESIGN.md §4 C12"),
    "C13": ("exploration",
            "bounded-exhaustive program-space enumeration; declared outputs re-derived from the AST and every row value checked against the declared type with an independent typing relation",
            "For every accepted query within the bound: IndexedQuery.outputs (names and types) equals what the query text and schema imply (property type, nullable under @optional, one list level per @fold, nullable list when the fold is under @optional, Int! counts); for every row of every case: keys = declared names, each value fits its declared type.",
            "Datasets hold schema-conforming values.",
            "DESIGN.md §4 C13"),
    "C21": ("exploration",
            "bounded-exhaustive program-space enumeration with a contract-checking adapter wrapper on every resolver call and every context entering a call",
            "Every resolver call of every case within the bound names a defined type, a property/edge defined on it (or __typename), a coercion target that is a subtype, exactly the declared edge parameters with values of the declared types; every non-null active vertex entering a call is an instance of the named type (checked against the dataset's real vertex types).",
            "Schema model parsed independently from the schema text.",
            "DESIGN.md §4 C21"),
    "C22": ("exploration",
            "bounded-exhaustive enumeration of the fold-count branch space (count-filter operator x argument class x observer x fold arrangement), each case on the real engine against (1) the reference evaluator with full fold materialisation and (2) metamorphic observer variants",
            "Two enumerated spaces (one folded edge + <=3 count/observer deviations; two edges with at least one fold + <=2 (quick) / <=3 (thorough) deviations) over datasets with fold sizes 0..3 and count arguments {-1,0,1,2,3,i64::MIN,u64::MAX,[],[2],[0,3]}: engine rows must equal the reference evaluator's, and for every case with a count filter adding a count @output, an @output inside the fold, or a nested fold with an @output must leave the projection on the original outputs unchanged.",
            "Reference evaluator trusted (Appendix A); observers are outputs (a tag needs a use, which is a filter and legitimately changes rows; tag observers are covered by oracle 1).",
            "DESIGN.md §4 C22"),
    "C23": ("exploration",
            "bounded-exhaustive program-space enumeration x every applicable instance of 8 metamorphic transformations; original and variant both executed on the real engine and the predicted multiset relation checked",
            "For every accepted query within k<=2 (quick) / k<=3 (thorough) deviations, every applicable instance of: T1 add a filter (subset), T2 raise recursion depth (superset), T3 make an edge @optional (superset), T4 parameterised edge vs equivalent filter (equal), T5 '=' vs one_of [x] (equal), T6 filter / negation partition (disjoint union), T7 rename outputs and tags (equal up to keys), T8 swap adjacent siblings (equal), over 10 datasets and argument maps. Applicability conditions (not inside a fold; T6 also not under @optional; T4 not @optional/@recurse) are stated in the code next to each transformation.",
            "Both sides are engine runs (no reference evaluator); quick tier applies T1/T6 to queries within k-1 deviations only.",
            "DESIGN.md §4 C23"),
    "C24": ("model_checking",
            "shuttle's exhaustive DFS scheduler over 2 threads sharing Arc<Schema> and Arc<IndexedQuery>, scheduling points at every adapter resolver call (and per yielded item where the space allows); every schedule executes the real engine; plus compile-time Send + Sync instantiations",
            "For five programs (regex filter + fold with imported tag, fold-count filter + optional, coercion + recursion, tag filter across an edge, nested folds) every interleaving of two threads that each compile a query against the shared schema and run the shared compiled query (and their own) with different arguments is explored (quick: configurations up to 2e5 schedules, ~3e5 schedules in total; thorough: up to 6e6 per configuration); IR and rows must equal the sequential run in every schedule. 17 Send + Sync instantiations must compile (a failure there is reported as a C24 violation by ./check).",
            "Granularity = adapter calls / items: state that outlives a call (global caches, hoisted buffers) is visible, races inside std's OnceLock / Arc are not. Configurations above the tier bound are listed as skipped in the evidence. A watchdog turns a blocked scheduler into a machinery failure.",
            "DESIGN.md §4 C24"),
    "C25": ("fault_enumeration",
            "exhaustive single-fault enumeration: every (fault kind x resolver x type x field x context position) inside the checker's documented scope, over a bounded-exhaustive family of schemas, each run through the real check_adapter_invariants",
            "For ~800 (quick) / ~4600 (thorough) accepted schemas (repository test schemas, S-verif, the C19 document family): the honest generic adapter passes; each single violation {adjacent contexts swapped, non-null property / one neighbour / true coercion for a vertex-less context} at each of 3 positions of each property (incl. __typename), each in-scope edge and each declared implements pair makes the checker panic. A checker run that passes is a violation, distinguishing 'never called the resolver' from 'called it and missed the fault'.",
            "Faults are committed by a wrapper of the harness's generic adapter; dropped contexts are injected too but only counted (the property does not list them).",
            "DESIGN.md §4 C25"),
    "C26": ("exploration",
            "bounded-exhaustive enumeration of schemas over a name alphabet built to collide / need escaping after the generator's name mangling and over every built-in type shape; each accepted schema through the real generate_rust_stub; every stub type-checked (lib + tests) by rustc in a scratch workspace",
            "448 (quick) / ~10k (thorough) schemas: every single position (type names, properties, edge, entrypoints, parameter) x 21 names (case variants, underscores, digits before capitals, strict / reserved / weak keywords, `_`), pairs of positions x pairs of names, every built-in scalar incl. ID x 8 nullability / list shapes as property and as parameter type, schemas without edges / properties. A stub that is written must pass cargo check --tests against /repo/trustfall; a generator panic other than its documented refusal is a violation.",
            "'Compiles' is decided by type-checking (no linking) with the sandbox toolchain, edition 2021 as in the repository's own stubgen test. Three known findings (ID type, consecutive-capitals type names, entrypoints colliding after snake-casing).",
            "DESIGN.md §4 C26"),
    "C27": ("exploration",
            "bounded-exhaustive enumeration of (query, arguments, dataset) cases and of a value-conversion sweep, executed through the real Python bindings (rebuilt from /repo) over a Python adapter mirroring the Rust adapter, compared type-strictly with the Rust engine's rows",
            "~4900 (quick) cases: every boundary value flowing out as a property and in as an argument (ints across the i64/u64 boundary and 2^53, -0.0 / extreme floats, NUL / non-BMP strings, booleans, nested lists with nulls and mixed signedness), Python values with no counterpart (nan, inf, out-of-range ints, dict, bytes, tuple, set, mixed lists, object, complex) and missing / surplus arguments, which must raise; the enumerated query space (k<=1 quick, k<=2 strided thorough, plus tag structures) over 4 datasets. Rows as sequences; bool vs int vs float distinguished; floats by bit pattern; edge parameters received by the Python adapter are recorded.",
            "The Python adapter re-implements the generic graph adapter's rules (py/c27_runner.py); CPython 3.11 of the sandbox.",
            "DESIGN.md §4 C27"),
    "C06": ("model_checking",
            "explicit-state search over candidate values: BFS closure from ~1300 seed states, every transition calls the real intersect / exclude_single_value / normalize and is compared with a reference denotation (bitmask over a probe universe)",
            "All seed candidates (Impossible, All, Single, Multiple up to 3 values in both orders, every Range over the bound alphabet with every bound kind and null inclusion) for an integer sort (signed/unsigned boundaries) and a string sort; every ordered pair is intersected, every value excluded, every state normalised; the state space is closed under these operations (no new states appear), so the search is a fixpoint.",
            "Probe-universe argument (one probe per cell of the partition induced by the bound alphabet); integer and string sorts explored separately.",
            "DESIGN.md §4 C06"),
    "C07": ("exploration",
            "exhaustive enumeration of (operator, left, right) over a boundary alphabet at two layers: the operator functions (guarded hook) and the same pairs end-to-end through compiled queries with variable and tag operands; oracle = documented definitions in i128",
            "Every operand pair a type-checked query can produce from the alphabet (null, Int64/Uint64 boundaries, floats incl. -0.0, strings, booleans, lists up to length 2 with null and mixed-sign elements) for all 20 operators, at the function layer and through 144 compiled queries; results must equal the reference definitions; panics are violations.",
            "Ordering of lists containing null elements is undefined by the documentation and skipped; regex semantics reuse the regex crate.",
            "DESIGN.md §4 C07"),
    "C14": ("model_checking",
            "environment-choice exploration over the process hash seed: one child process per seed under an LD_PRELOAD getrandom shim, until every iteration order of a 4-key schema hash map has been observed; digests of everything compiled / executed must be identical across processes",
            "Each child compiles ~70k queries (valid and invalid; IR or error text), executes ~20k cases with a recording adapter (rows in order + adapter call trace), compiles the repository's 210 test queries and constructs the C19 schema family (ok or error text), each twice in-process. Quick: >= 32 seeds and until all 24 vertex-type orders of S-det were seen (64 seeds here), plus two free-running processes; thorough: up to 600 seeds with the larger corpus. The evidence reports the hash-map orders covered (24/24 for S-det; every ordered pair of vertex types of S-verif and numbers in both orders).",
            "The hash seed is the only nondeterminism in scope and is controlled through getrandom (a same-seed replay must reproduce the orders, else machinery error). The introspection adapter's row order (unsorted HashMap iteration) is observed, not judged: the property conditions on a deterministic adapter.",
            "DESIGN.md §4 C14"),
    "C15": ("exploration",
            "bounded-exhaustive program-space enumeration; each case is executed directly and through the tracing adapter, the trace is serialized / deserialized (RON) and replayed by the repository's TraceReaderAdapter with no data source",
            "For every (query, dataset, arguments) case of the enumerated space (k<=2 quick / k<=3 thorough, plus two-edge structures with tag / count deviations): rows through AdapterTap + tap_results equal the direct rows as a sequence, the trace records one ProduceQueryResult per row, the trace is equal after a RON round trip (thorough: also pretty RON), and assert_interpreted_results(deserialized trace, rows, complete) reproduces exactly those rows.",
            "RON is the repository's trace format; JSON cannot hold a trace (maps keyed by Eid / FieldRef) and is not tried. The replay oracle is the repository's own TraceReaderAdapter.",
            "DESIGN.md §4 C15"),
    "C16": ("exploration",
            "exhaustive enumeration of values / types over boundary alphabets and of every distinct IR of the enumerated query space, each through the real serde impls (RON, JSON, untagged JSON) and Display/parse, compared for equality",
            "(a) every distinct compiled query (k<=2 quick / k<=3 thorough, ~66k / millions of IRs): IRQuery via RON and JSON, IndexedQuery via RON, and re-indexing the round-tripped IRQuery gives the same IndexedQuery; (b) 248 values (integer / float boundaries, escapes, non-BMP text, lists to nesting 3): RON, pretty RON and JSON bit-identical, untagged JSON equal; (c) every type over 3 bases x depth<=5/7 x all nullability masks + depths up to the limit (30): parse, Display, Display->parse, RON, JSON.",
            "RON and JSON are taken as the supported text formats; one known finding (Enum in the untagged form).",
            "DESIGN.md §4 C16"),
    "C17": ("exploration",
            "exhaustive enumeration of all pairs/triples of a 90-type family and all (type, value) pairs against reference subtype / meet / typing relations",
            "All pairs and triples over 3 base names x list depth <= 3 x every nullability mask: intersect is commutative, idempotent, associative, the greatest common subtype, None iff shapes differ; subtype is a partial order; equal_ignoring_nullability is an equivalence; is_valid_value agrees with an independent typing relation and is monotone along subtyping.",
            "List depth <= 3 stands for deeper lists (operations recurse uniformly).",
            "DESIGN.md §4 C17"),
    "C18": ("exploration",
            "exhaustive enumeration of (value, target type) over a boundary alphabet x 39 compiled-in target types, decoded through the real TryIntoStruct from rows and from edge parameters, against an independent representability oracle",
            "Every value (null, integers at every i8..u64 and f32/f64 exactness boundary, floats, strings, booleans, enums, lists to nesting 2) x every target (all integer widths incl. 128-bit, f32, f64, String, bool, char, Option, Vec, tuples, nested) from a row with an extra key and from EdgeParameters, plus all boundary-integer pairs into a two-field struct with an optional field: representable => exactly that value (floats bit-exact), integer out of range or wrong kind => error, never a panic.",
            "Target family fixed at compile time; f64->f32 narrowing only counted; two known findings (Enum todo!(), inexact int -> float).",
            "DESIGN.md §4 C18"),
    "C19": ("exploration",
            "bounded-exhaustive enumeration of schema documents within k deviations of two valid skeletons; Schema::parse under catch_unwind against an independent validator of the documented rules",
            "Every schema document within 2 (quick, ~65k) / 3 (thorough, millions) deviations (type definitions added / removed / flipped, implements toggled, fields added over a menu of property / edge / custom / undefined / root / nested-list / depth-31 types with every kind of parameter default, field and parameter types changed, schema blocks, scalar and directive definitions): construction must return, and accept exactly when every documented rule holds (interfaces exist and are implemented transitively, inherited fields present and only narrowed, parameters identical and only widened, field types built-in or defined vertex types, no reserved names, no edges into the root, no property parameters, defaults fit, no cycles, no ambiguous origins). On the pinned tree validator and engine agree on every decided document; seven panic sites are known findings.",
            "Documents touching what the documented rules are silent about (duplicate definitions, root properties, nested-list edges, non-built-in parameter types, schema-block count) are checked for no-panic only.",
            "DESIGN.md §4 C19"),
    "C20": ("exploration",
            "bounded-exhaustive enumeration of valid schemas (C19 document family within 2 deviations + repository schemas); a fixed battery of introspection queries through the real SchemaAdapter compared as sets with an independent parse of the schema text",
            "For each of ~4600 accepted schemas: vertex types and interface flags, implements, implementer (strict inverse; empty for object types), properties with types, edges with target / to_many / at_least_one, parameters with types and JSON-encoded defaults (explicit, implicit null, none), entrypoints, the same through the Schema vertex, lookups by name with = and one_of (the adapter's own use of hints); plus check_adapter_invariants(introspection schema, SchemaAdapter).",
            "Expected contents come from the harness's own SDL parse (schema_model.rs).",
            "DESIGN.md §4 C20"),
    "C08": ("exploration",
            "exhaustive enumeration of all value pairs and triples over a boundary alphabet, against reference equality/order (i128)",
            "Every ordered pair and triple of a 44-value (quick) / larger (thorough) alphabet is compared with the real PartialEq/PartialOrd impls; equivalence, total-order and numeric-integer laws are checked on each. Exhaustive over the alphabet, which has one representative per class the comparison code distinguishes (sign, i64/u64 range overlap, kinds, nesting).",
            "Values outside the alphabet are assumed to behave like their boundary class; floats are finite.",
            "DESIGN.md §4 C08"),
}

NOT_BUILT_REASON = "check not built yet (construction in progress, see DESIGN.md section 4)"
NOT_APPLICABLE = {}


def hook_commits():
    out = subprocess.run(["git", "-C", "/repo", "log", "--format=%H %s"], capture_output=True, text=True).stdout
    return [l.split()[0] for l in out.splitlines() if " verif hook:" in l]


def main():
    checks = []
    for pid in ALL:
        if pid not in CHECKS:
            continue
        cat, tech, text, note, ref = CHECKS[pid]
        checks.append({
            "property_id": pid,
            "quick_cmd": f"./check {pid} quick",
            "thorough_cmd": f"./check {pid} thorough",
            "evidence_file": f"/verif/evidence/{pid}.json",
            "replay_cmd_template": f"./check {pid} quick --replay {{path}}",
            "engine": "tfverif",
            "level_claimed": {"category": cat, "text": text, "design_ref": ref},
            "level_note": note,
            "technique": tech,
        })
    na = [{"property_id": p, "reason": NOT_APPLICABLE.get(p, NOT_BUILT_REASON)} for p in ALL if p not in CHECKS]
    m = {
        "version": 1,
        "setup_cmd": "./setup.sh",
        "hooks": {
            "guard": "cargo feature `__verif` on trustfall_core (default off)",
            "enable": "the harness crate /verif/harness depends on /repo/trustfall_core by path with features [\"__private\", \"__verif\"]; ./check rebuilds it on every run",
            "baseline_off_cmd": "cd /repo && cargo test --workspace --no-fail-fast --offline",
            "source_commits": hook_commits(),
            "add_only": True,
        },
        "engines": [
            {"name": "tfverif", "path": "/verif/harness", "serves_properties": sorted(CHECKS),
             "kind_free_text": "Rust harness: bounded-exhaustive program-space enumeration (PSE), environment-choice exploration (ECE, stateless replay-prefix explorer), explicit-state search (ESS) and shuttle DFS, all executing the real trustfall code"},
        ],
        "checks": checks,
        "notes": "See DESIGN.md. ./check <ID> <tier> rebuilds the harness against /repo's working tree and runs the property's exploration; exit 0/1/2 = held/violation/machinery failure.",
        "not_applicable": na,
    }
    json.dump(m, open("/verif/MANIFEST.json", "w"), indent=1)
    print(f"{len(checks)} checks, {len(na)} not claimed")


if __name__ == "__main__":
    main()
