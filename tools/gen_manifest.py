#!/usr/bin/env python3
"""Regenerates /verif/MANIFEST.json from the table below (single source of truth for the
per-property claims). Run after adding or changing a check."""
import json, subprocess

ALL = [f"C{i:02d}" for i in range(1, 28)]

# id -> (category, technique, level text, level note, design ref)
CHECKS = {
    "C08": ("exploration",
            "exhaustive enumeration of all value pairs and triples over a boundary alphabet, against reference equality/order (i128)",
            "Every ordered pair and triple of a 44-value (quick) / larger (thorough) alphabet is compared with the real PartialEq/PartialOrd impls; equivalence, total-order and numeric-integer laws are checked on each. Exhaustive over the alphabet, which has one representative per class the comparison code distinguishes (sign, i64/u64 range overlap, kinds, nesting).",
            "Values outside the alphabet are assumed to behave like their boundary class; floats are finite.",
            "DESIGN.md §4 C08"),
}

NOT_BUILT_REASON = "check not built yet (construction in progress, see DESIGN.md section 4)"
NOT_APPLICABLE = {}


def hook_commits():
    out = subprocess.run(["git", "-C", "/repo", "log", "--format=%H %s"], capture_output=True, text=True).stdout
    return [l.split()[0] for l in out.splitlines() if " verif hook:" in l]


def main():
    checks = []
    for pid in ALL:
        if pid not in CHECKS:
            continue
        cat, tech, text, note, ref = CHECKS[pid]
        checks.append({
            "property_id": pid,
            "quick_cmd": f"./check {pid} quick",
            "thorough_cmd": f"./check {pid} thorough",
            "evidence_file": f"/verif/evidence/{pid}.json",
            "replay_cmd_template": f"./check {pid} quick --replay {{path}}",
            "engine": "tfverif",
            "level_claimed": {"category": cat, "text": text, "design_ref": ref},
            "level_note": note,
            "technique": tech,
        })
    na = [{"property_id": p, "reason": NOT_APPLICABLE.get(p, NOT_BUILT_REASON)} for p in ALL if p not in CHECKS]
    m = {
        "version": 1,
        "setup_cmd": "./setup.sh",
        "hooks": {
            "guard": "cargo feature `__verif` on trustfall_core (default off)",
            "enable": "the harness crate /verif/harness depends on /repo/trustfall_core by path with features [\"__private\", \"__verif\"]; ./check rebuilds it on every run",
            "baseline_off_cmd": "cd /repo && cargo test --workspace --no-fail-fast --offline",
            "source_commits": hook_commits(),
            "add_only": True,
        },
        "engines": [
            {"name": "tfverif", "path": "/verif/harness", "serves_properties": sorted(CHECKS),
             "kind_free_text": "Rust harness: bounded-exhaustive program-space enumeration (PSE), environment-choice exploration (ECE, stateless replay-prefix explorer), explicit-state search (ESS) and shuttle DFS, all executing the real trustfall code"},
        ],
        "checks": checks,
        "notes": "See DESIGN.md. ./check <ID> <tier> rebuilds the harness against /repo's working tree and runs the property's exploration; exit 0/1/2 = held/violation/machinery failure.",
        "not_applicable": na,
    }
    json.dump(m, open("/verif/MANIFEST.json", "w"), indent=1)
    print(f"{len(checks)} checks, {len(na)} not claimed")


if __name__ == "__main__":
    main()
