#!/bin/bash
# tools/run_all.sh [tier] : run every check registered in MANIFEST.json, validate evidence, summarise.
TIER="${1:-quick}"; cd /verif; rm -rf replays
for id in $(python3 -c "import json;print(' '.join(c['property_id'] for c in json.load(open('MANIFEST.json'))['checks']))"); do
  s=$(date +%s); out=$(./check $id $TIER 2>&1); rc=$?; e=$(( $(date +%s) - s ))
  echo "$id rc=$rc ${e}s :: $(echo "$out" | grep -E '^(PASS|FAIL|MACHINERY)' | tail -1) $(echo "$out" | grep -c '^KNOWN-FINDING') known"
done
python3-vt - <<'PY'
import json,jsonschema,glob
m=json.load(open('/verif/MANIFEST.json')); jsonschema.validate(m,json.load(open('/root/.vp/MANIFEST.schema.json')))
es=json.load(open('/root/.vp/EVIDENCE.schema.json'))
for c in m['checks']:
    f=c['evidence_file']
    try: jsonschema.validate(json.load(open(f)),es)
    except Exception as e: print('EVIDENCE INVALID',f,str(e)[:200])
print('manifest+evidence validated')
PY
