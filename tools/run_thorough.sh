#!/bin/bash
# tools/run_thorough.sh [ids...] : run the thorough tier of the listed (default: all) checks one after another; summary on stdout.
cd /verif
IDS="$@"; [ -z "$IDS" ] && IDS=$(python3 -c "import json;print(' '.join(c['property_id'] for c in json.load(open('MANIFEST.json'))['checks']))")
for id in $IDS; do
  s=$(date +%s); ./check $id thorough > /tmp/thorough_$id.log 2>&1; rc=$?; e=$(( $(date +%s) - s ))
  echo "$id rc=$rc ${e}s :: $(grep -E '^(PASS|FAIL|MACHINERY)' /tmp/thorough_$id.log | tail -1) known=$(grep -c '^KNOWN-FINDING' /tmp/thorough_$id.log) exhaustive=$(python3 -c "import json;print(json.load(open('evidence/$id.json'))['coverage'].get('exhaustive'))" 2>/dev/null)"
done
