#!/bin/bash
# tools/seed_check.sh <seed-dir-name> <property-id> [tier]
# Applies /verif/seeded/<name>/patch.diff (or /tmp/seedout/<name>/patch.diff) to /repo, runs the check,
# always reverts /repo afterwards. Prints the check's tail and exit code.
NAME="$1"; PID="$2"; TIER="${3:-quick}"
P="/verif/seeded/$NAME/patch.diff"; [ -f "$P" ] || P="/tmp/seedout/$NAME/patch.diff"
cd /repo || exit 2
if ! git diff --quiet; then echo "/repo has uncommitted changes; refusing"; exit 2; fi
git apply "$P" || { echo "patch does not apply"; exit 2; }
cd /verif && ./check "$PID" "$TIER" > /tmp/seed_check_$NAME.log 2>&1; rc=$?
git -C /repo checkout -- . 
grep -E "^(VIOLATION|PASS|FAIL|MACHINERY|KNOWN)" /tmp/seed_check_$NAME.log | head -8
echo "seed=$NAME property=$PID tier=$TIER exit=$rc"
exit 0
