#!/bin/bash
# tools/seed_confirm.sh <name> <demo-src-file> <demo-dest-relpath> <cargo test args for the demo...>
# Confirms, in the scratch worktree /tmp/seedwt/<name>: (1) worktree diff == patch.diff, (2) the
# workspace test suite passes with the change, (3) the demo fails with the change, (4) passes without.
NAME="$1"; SRC="$2"; DEST="$3"; shift 3
WT=/tmp/seedwt/$NAME; OUT=/tmp/seedout/$NAME
export CARGO_NET_OFFLINE=true; unset RUST_BACKTRACE
export TMPDIR=/tmp/seedtmp_$NAME; mkdir -p $TMPDIR
cd $WT || exit 2
rm -f "$WT/$DEST"
git diff > /tmp/seed_$NAME.diff
if diff -q /tmp/seed_$NAME.diff $OUT/patch.diff >/dev/null; then echo "1. diff matches patch.diff"; else echo "1. DIFF MISMATCH"; fi
cargo test --workspace --no-fail-fast --offline -j 8 > /tmp/seed_$NAME.suite.log 2>&1
P=$(grep -E '^test result' /tmp/seed_$NAME.suite.log | sed -E 's/.* ([0-9]+) passed; ([0-9]+) failed.*/\1 \2/' | awk '{p+=$1; f+=$2} END {print p" passed, "f" failed"}')
echo "2. suite with change: $P"
mkdir -p "$(dirname $WT/$DEST)"; cp "$OUT/demo/$SRC" "$WT/$DEST"
cargo test --offline -j 8 "$@" > /tmp/seed_$NAME.demo_with.log 2>&1; echo "3. demo WITH change exit=$? ($(grep -E '^test result' /tmp/seed_$NAME.demo_with.log | tail -1))"
git apply -R $OUT/patch.diff
cargo test --offline -j 8 "$@" > /tmp/seed_$NAME.demo_without.log 2>&1; echo "4. demo WITHOUT change exit=$? ($(grep -E '^test result' /tmp/seed_$NAME.demo_without.log | tail -1))"
git apply $OUT/patch.diff
rm -f "$WT/$DEST"
