#!/usr/bin/env python3
"""tools/seed_keep.py <name> <property> <detected_by: e.g. 'C06 quick'> : archive a confirmed seed into
/verif/seeded/<name>/ (patch.diff, demo/, meta.json) and remove its scratch worktree."""
import json, os, shutil, subprocess, sys
name, prop, detected = sys.argv[1], sys.argv[2], sys.argv[3]
src = f"/tmp/seedout/{name}"; dst = f"/verif/seeded/{name}"
os.makedirs(dst, exist_ok=True)
shutil.copy(f"{src}/patch.diff", f"{dst}/patch.diff")
if os.path.isdir(f"{dst}/demo"): shutil.rmtree(f"{dst}/demo")
shutil.copytree(f"{src}/demo", f"{dst}/demo")
try: meta = json.load(open(f"{src}/meta.json"))
except Exception as e: meta = {"property": prop, "summary": f"(agent meta unreadable: {e})"}
meta["property"] = prop
meta["breaks_property"] = prop
confirm = open(f"/tmp/seed_{name}.confirm").read() if os.path.exists(f"/tmp/seed_{name}.confirm") else ""
chk = open(f"/tmp/seed_check_{name}.log").read() if os.path.exists(f"/tmp/seed_check_{name}.log") else ""
meta["confirmed_by_builder"] = {
    "what_ran": "tools/seed_confirm.sh (worktree diff == patch.diff; cargo test --workspace with the change; demo with / without the change) and tools/seed_check.sh (patch applied to /repo, check run, /repo reverted)",
    "confirm_output": confirm.strip().splitlines(),
    "check_output": [l for l in chk.splitlines() if l.startswith(("VIOLATION", "PASS", "FAIL", "KNOWN", "MACHINERY"))][:6],
    "detected_by": detected,
}
json.dump(meta, open(f"{dst}/meta.json", "w"), indent=1)
wt = f"/tmp/seedwt/{name}"
if os.path.isdir(wt):
    subprocess.run(["git", "-C", "/repo", "worktree", "remove", "--force", wt])
shutil.rmtree(f"/tmp/seedtmp_{name}", ignore_errors=True)
print("kept", dst)
