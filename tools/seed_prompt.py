#!/usr/bin/env python3
"""Print the prompt given to a fresh sub-agent that seeds a property-breaking change.
Only the property's text and the scratch worktree path go in: nothing from /verif's machinery."""
import json, sys
pid = sys.argv[1]
variant = sys.argv[2] if len(sys.argv) > 2 else ""
for l in open('/verif/properties.jsonl'):
    d = json.loads(l)
    if d['id'] == pid:
        break
else:
    sys.exit("no such property")
wt = f"/tmp/seedwt/{pid}{variant}"
out = f"/tmp/seedout/{pid}{variant}"
print(f"""You are helping test a verification harness for the Rust project obi1kenobi/trustfall (a GraphQL-syntax query engine). Your job: produce ONE realistic, subtle source change to the project that BREAKS the semantic property below, while the project still compiles and its existing test suite still passes.

PROPERTY {pid}: {d['title']}
Statement: {d['statement']}
Quantified over: {d['quantifier']['text']}
Code the property is anchored in: {', '.join(d['anchors']['files'])}

Your scratch copy of the repository is the git worktree at {wt} (work ONLY there; never touch /repo or /verif, and do not read anything under /verif). The sandbox has no network: always run cargo with `--offline` and env `CARGO_NET_OFFLINE=true`. Use `CARGO_TARGET_DIR={wt}/target` (the default for that worktree). The machine is shared, so pass `-j 6` to cargo.

Requirements for the change:
1. It must be a plausible mistake or "optimisation" a developer could make (a wrong bound, a swapped branch, a missing case, a hoisted buffer, a dropped clone, a skipped check, state that leaks between calls ...), NOT a deliberate sabotage that ordinary use would expose at once. Prefer a change that needs something specific to manifest: a particular multi-feature query shape, an unusual input value (boundary integers, nulls, empty lists), a particular adapter batching/interleaving, a multi-step sequence, or two cooperating sites that each look fine alone.
2. It must compile, and the existing test suite must still pass with it: run `cd {wt} && CARGO_NET_OFFLINE=true cargo test --workspace --no-fail-fast --offline -j 6 2>&1 | tail -40` (at the very least `-p trustfall_core -p trustfall -p trustfall_stubgen -p trustfall_derive`; the full workspace is preferred) and confirm there are 0 failures. If tests fail, pick a different change. Do not edit or delete existing tests or snapshot files.
3. It must change only non-test source code of the project (under {wt}), be small (ideally < 30 changed lines), and must not be guarded by any cfg/feature.
4. Provide a demonstration: a NEW test (for example a new file under {wt}/trustfall_core/tests/ or {wt}/trustfall/tests/, or a small example program) that uses only the project's public API (the cargo feature `__private` of trustfall_core exposes the test adapters numbers/filesystem/nullables if you need data) and that FAILS with your change applied and PASSES on the original code. Verify both directions yourself (use `git diff > /tmp/mychange.diff`, `git apply -R` and `git apply` to flip the change; do NOT use `git stash` (the stash is shared between worktrees and other agents work in sibling worktrees); set `TMPDIR` to a private directory such as /tmp/seedtmp_<id> when running tests, because some tests use fixed paths under the temp dir).

Deliverables — write these files:
- {out}/patch.diff : output of `git -C {wt} diff` containing ONLY the property-breaking source change (not the demonstration).
- {out}/demo/ : the demonstration file(s), plus {out}/demo/RUN.md with the exact commands to run it (which file goes where in the repo, which cargo command) and the expected failing/passing output.
- {out}/meta.json : {{"property": "{pid}", "summary": "<what the change does>", "needs_to_manifest": "<what specific input/schedule/sequence is needed>", "tests_run": "<command(s) you ran and result counts>", "files_changed": [...]}}

When finished, leave the worktree with the change applied but do not commit. Reply with a short summary: what you changed, why existing tests miss it, and how the demo exposes it.""")
